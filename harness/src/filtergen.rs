//! Random filter configurations shared by C03 / C04 / C09: every criterion absent / empty /
//! singleton / duplicates / several ids from a small pool (so that membership goes both ways),
//! ids longer than the 4-byte wire field that share a prefix with pool ids, counts around the
//! set size and at the i64 extremes.

use crate::rng::Rng;
use dlt_core::filtering::{DltFilterConfig, ProcessedDltFilterConfig};
use std::collections::BTreeSet;

pub const POOL: &[&str] = &["A", "B", "CC", "", "DDDD", "é", "ECU1", "APP", "AB  ", "AB", "NONE", "DLT\u{1}"];
/// configuration-only ids: longer than any id a message can carry, prefixes collide with pool ids
pub const LONG_IDS: &[&str] = &["DDDDX", "DDDDY", "ECU12", "APP1", "APP12", "CCCCC", "ééé"];

pub fn gen_set(r: &mut Rng) -> Option<Vec<String>> {
    let mut v = match r.below(8) {
        0..=2 => return None,
        3 => vec![],
        4 => vec![r.pick(POOL).to_string()],
        5 => {
            // duplicates
            let x = r.pick(POOL).to_string();
            vec![x.clone(), x.clone(), r.pick(POOL).to_string(), x]
        }
        _ => {
            let n = r.range(2, 6) as usize;
            (0..n).map(|_| r.pick(POOL).to_string()).collect()
        }
    };
    if r.chance(1, 5) {
        let n = r.range(1, 3);
        for _ in 0..n {
            let at = r.usize_below(v.len() + 1);
            v.insert(at, r.pick(LONG_IDS).to_string());
        }
    }
    Some(v)
}

pub fn gen_count(r: &mut Rng, set: &Option<Vec<String>>) -> i64 {
    let distinct = set.as_ref().map(|s| s.iter().collect::<BTreeSet<_>>().len() as i64).unwrap_or(0);
    match r.below(10) {
        0 => distinct - 1,
        1 => distinct,
        2 => distinct + 1,
        3 => -1,
        4 => i64::MAX,
        5 => i64::MIN,
        6 => set.as_ref().map(|s| s.len() as i64).unwrap_or(0), // the raw (non-deduplicated) size
        7 => i64::MIN + r.below(8) as i64,
        8 => i64::MAX - r.below(8) as i64,
        _ => r.below(8) as i64,
    }
}

pub fn gen_filter(r: &mut Rng, min_log_level: Option<u8>) -> DltFilterConfig {
    let app_ids = gen_set(r);
    let ecu_ids = gen_set(r);
    let context_ids = gen_set(r);
    DltFilterConfig {
        min_log_level,
        app_id_count: gen_count(r, &app_ids),
        context_id_count: gen_count(r, &context_ids),
        app_ids,
        ecu_ids,
        context_ids,
    }
}

pub fn gen_level(r: &mut Rng) -> Option<u8> {
    match r.below(4) {
        0 => None,
        1 => Some(r.u8()),
        _ => Some(r.below(8) as u8),
    }
}

/// A processed configuration as callers may also build it by hand (all fields are public): converted from a
/// random `DltFilterConfig` by either conversion, and for one in three with a minimum level that no numeric
/// level converts to (`LogLevel::Invalid(n)`). Only used where the oracle does not depend on what the filter
/// decides (C03: no crash; C04: consumption).
pub fn gen_processed(r: &mut Rng) -> (ProcessedDltFilterConfig, String) {
    let lvl = gen_level(r);
    let cfg = gen_filter(r, lvl);
    let mut text = format!("{:?}", cfg);
    let mut p: ProcessedDltFilterConfig = if r.chance(1, 2) { (&cfg).into() } else { cfg.into() };
    if r.chance(1, 3) {
        let n = match r.below(4) {
            0 => 0,
            1 => r.range(7, 15) as u8,
            2 => r.range(1, 6) as u8,
            _ => r.u8(),
        };
        p.min_log_level = Some(dlt_core::dlt::LogLevel::Invalid(n));
        text.push_str(&format!(" with min_log_level overridden by hand: Some(Invalid({}))", n));
    }
    (p, text)
}
