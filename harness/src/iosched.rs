//! Scripted byte sources (DESIGN.md §4.4): the harness owns the Read / AsyncRead boundary and
//! decides how the stream is fragmented and where faults (Interrupted, Pending) are injected.
//! Every call is logged; the log is the history the C07/C08 oracles and evidence use.

use crate::rng::Rng;
use std::future::Future;
use std::io;
use std::pin::Pin;
use std::sync::atomic::{AtomicU64, Ordering};
use std::sync::Arc;
use std::task::{Context, Poll, Waker};

#[derive(Clone, Copy, Debug, PartialEq, Eq, Hash)]
pub enum Step {
    /// deliver min(k, requested, remaining) >= 1 bytes
    Give(usize),
    /// blocking only: Err(ErrorKind::Interrupted); async: treated as Pending
    Fault,
}

#[derive(Clone, Debug)]
pub struct Script {
    pub steps: Vec<Step>,
    /// repeated after the script is exhausted
    pub default: usize,
    pub family: &'static str,
    /// longest run of consecutive faults the source will serve (a correct reader retries all of them)
    pub max_consecutive: u32,
}

impl Script {
    pub fn whole() -> Script {
        Script {
            steps: vec![],
            default: usize::MAX,
            family: "whole",
            max_consecutive: MAX_CONSECUTIVE_FAULTS,
        }
    }
    pub fn hash(&self) -> u64 {
        use std::hash::{Hash, Hasher};
        let mut h = std::collections::hash_map::DefaultHasher::new();
        self.steps.hash(&mut h);
        self.default.hash(&mut h);
        h.finish()
    }
}

#[derive(Clone, Debug, Default)]
pub struct ReadLog {
    pub calls: u64,
    pub faults: u64,
    pub short_reads: u64,
    pub bytes: u64,
    pub eof_reads: u64,
    /// stream offsets at which a read ended (fragment boundaries actually delivered)
    pub boundaries: Vec<usize>,
    /// stream offsets at which a fault was injected
    pub fault_offsets: Vec<usize>,
    pub max_consecutive_faults: u32,
}

pub struct Source {
    pub data: Vec<u8>,
    pub pos: usize,
    script: Script,
    idx: usize,
    consecutive_faults: u32,
    pub log: ReadLog,
}

const MAX_CONSECUTIVE_FAULTS: u32 = 8;
pub const EOF_IGNORED_BOUND: u64 = 1000;
pub const EOF_IGNORED_MARK: &str = "VERIF-EOF-IGNORED";

impl Source {
    pub fn new(data: Vec<u8>, script: Script) -> Source {
        Source {
            data,
            pos: 0,
            script,
            idx: 0,
            consecutive_faults: 0,
            log: ReadLog::default(),
        }
    }
    fn next_step(&mut self) -> Step {
        let s = if self.idx < self.script.steps.len() {
            let s = self.script.steps[self.idx];
            self.idx += 1;
            s
        } else {
            Step::Give(self.script.default)
        };
        match s {
            Step::Fault if self.consecutive_faults >= self.script.max_consecutive => Step::Give(1),
            s => s,
        }
    }
    /// Some(n) bytes copied, or None for a fault
    fn serve(&mut self, buf: &mut [u8]) -> Option<usize> {
        self.log.calls += 1;
        if buf.is_empty() {
            return Some(0);
        }
        if self.pos >= self.data.len() {
            self.log.eof_reads += 1;
            // a logical progress bound: a correct reader asks once or twice more after it was told that the
            // stream has ended; one that was told EOF_IGNORED_BOUND times and still asks will never stop.
            // The source regains control by unwinding (the monitors catch it and report the clause
            // `end_of_stream_ignored`); no clock is involved.
            if self.log.eof_reads > EOF_IGNORED_BOUND {
                panic!("{}: the source answered end-of-stream {} times and is still being read", EOF_IGNORED_MARK, self.log.eof_reads);
            }
            return Some(0);
        }
        match self.next_step() {
            Step::Fault => {
                self.consecutive_faults += 1;
                self.log.faults += 1;
                self.log.max_consecutive_faults = self.log.max_consecutive_faults.max(self.consecutive_faults);
                if self.log.fault_offsets.len() < 4096 {
                    self.log.fault_offsets.push(self.pos);
                }
                None
            }
            Step::Give(k) => {
                self.consecutive_faults = 0;
                let remaining = self.data.len() - self.pos;
                let n = k.max(1).min(buf.len()).min(remaining);
                buf[..n].copy_from_slice(&self.data[self.pos..self.pos + n]);
                self.pos += n;
                self.log.bytes += n as u64;
                if n < buf.len() && n < remaining {
                    self.log.short_reads += 1;
                }
                if self.log.boundaries.len() < 4096 {
                    self.log.boundaries.push(self.pos);
                }
                Some(n)
            }
        }
    }
}

/// shared handle so the monitor can read the log after the reader (which owns the source) is done
pub struct SharedSource(pub std::rc::Rc<std::cell::RefCell<Source>>);

impl SharedSource {
    pub fn new(data: Vec<u8>, script: Script) -> (SharedSource, std::rc::Rc<std::cell::RefCell<Source>>) {
        let rc = std::rc::Rc::new(std::cell::RefCell::new(Source::new(data, script)));
        (SharedSource(rc.clone()), rc)
    }
}

impl io::Read for SharedSource {
    fn read(&mut self, buf: &mut [u8]) -> io::Result<usize> {
        match self.0.borrow_mut().serve(buf) {
            Some(n) => Ok(n),
            None => Err(io::Error::new(io::ErrorKind::Interrupted, "scripted interruption")),
        }
    }
}

impl futures::io::AsyncRead for SharedSource {
    fn poll_read(self: Pin<&mut Self>, cx: &mut Context<'_>, buf: &mut [u8]) -> Poll<io::Result<usize>> {
        match self.0.borrow_mut().serve(buf) {
            Some(n) => Poll::Ready(Ok(n)),
            None => {
                // a well-behaved source arranges a wake-up before returning Pending
                cx.waker().wake_by_ref();
                Poll::Pending
            }
        }
    }
}

// ------------------------------------------------------------------ tiny executor

static WAKES: AtomicU64 = AtomicU64::new(0);

struct CountWaker(AtomicU64);
impl std::task::Wake for CountWaker {
    fn wake(self: Arc<Self>) {
        self.0.fetch_add(1, Ordering::SeqCst);
        WAKES.fetch_add(1, Ordering::Relaxed);
    }
    fn wake_by_ref(self: &Arc<Self>) {
        self.0.fetch_add(1, Ordering::SeqCst);
        WAKES.fetch_add(1, Ordering::Relaxed);
    }
}

#[derive(Debug, Default, Clone)]
pub struct PollStats {
    pub polls: u64,
    pub pendings: u64,
}

/// Poll `fut` to completion. A Pending without a preceding wake, or more than `max_polls`
/// polls, is reported as Err (inconclusive for the monitors, never a violation).
pub fn block_on_counted<F: Future>(fut: F, max_polls: u64, stats: &mut PollStats) -> Result<F::Output, &'static str> {
    let cw = Arc::new(CountWaker(AtomicU64::new(0)));
    let counter = &cw.0;
    let waker = Waker::from(cw.clone());
    let mut cx = Context::from_waker(&waker);
    let mut fut = Box::pin(fut);
    let mut polls = 0u64;
    loop {
        let before = counter.load(Ordering::SeqCst);
        polls += 1;
        stats.polls += 1;
        match fut.as_mut().poll(&mut cx) {
            Poll::Ready(v) => return Ok(v),
            Poll::Pending => {
                stats.pendings += 1;
                if counter.load(Ordering::SeqCst) == before {
                    return Err("pending without wake");
                }
                if polls > max_polls {
                    return Err("poll bound exceeded");
                }
            }
        }
    }
}

// ------------------------------------------------------------------ schedule families

pub const FAMILIES: &[&str] = &[
    "whole",
    "one_byte",
    "single_cut",
    "single_cut_fault",
    "two_cuts",
    "fixed_size",
    "geometric",
    "fault_every_boundary",
    "random_mix",
    "fault_burst",
];

/// `sys` selects the systematic parameter (cut position, fragment size) where the family has one.
pub fn gen_script(r: &mut Rng, family: usize, stream_len: usize, sys: u64) -> Script {
    let len = stream_len.max(1);
    match family % FAMILIES.len() {
        0 => Script::whole(),
        1 => Script {
            steps: vec![],
            default: 1,
            family: "one_byte",
            max_consecutive: MAX_CONSECUTIVE_FAULTS,
        },
        2 => {
            let c = (sys as usize % len).max(1);
            Script {
                steps: vec![Step::Give(c)],
                default: usize::MAX,
                family: "single_cut",
                max_consecutive: MAX_CONSECUTIVE_FAULTS,
            }
        }
        3 => {
            let c = (sys as usize % len).max(1);
            let nf = r.range(1, 3) as usize;
            let mut steps = vec![Step::Give(c)];
            for _ in 0..nf {
                steps.push(Step::Fault);
            }
            // also a fault before the very first byte, half of the time
            if r.chance(1, 2) {
                steps.insert(0, Step::Fault);
            }
            Script {
                steps,
                default: usize::MAX,
                family: "single_cut_fault",
                max_consecutive: MAX_CONSECUTIVE_FAULTS,
            }
        }
        4 => {
            // pair of cut positions (exhaustive over pairs for short streams via `sys`)
            let a = (sys as usize % len).max(1);
            let b = ((sys as usize / len) % len).max(1);
            let (a, b) = if a <= b { (a, b) } else { (b, a) };
            let mut steps = vec![Step::Give(a)];
            if b > a {
                steps.push(Step::Give(b - a));
            }
            Script {
                steps,
                default: usize::MAX,
                family: "two_cuts",
                max_consecutive: MAX_CONSECUTIVE_FAULTS,
            }
        }
        5 => Script {
            steps: vec![],
            default: 2 + (sys as usize % 16),
            family: "fixed_size",
            max_consecutive: MAX_CONSECUTIVE_FAULTS,
        },
        6 => {
            let mut steps = vec![];
            let mut total = 0usize;
            let typical = *r.pick(&[2usize, 5, 16, 64, 300]);
            while total < len && steps.len() < 3000 {
                let k = 1 + r.size(typical, typical * 20);
                total += k;
                steps.push(Step::Give(k));
            }
            Script {
                steps,
                default: typical,
                family: "geometric",
                max_consecutive: MAX_CONSECUTIVE_FAULTS,
            }
        }
        7 => {
            // a fault before every read; fragment size fixed
            let k = 1 + (sys as usize % 24);
            let mut steps = vec![];
            let mut total = 0usize;
            while total < len && steps.len() < 6000 {
                for _ in 0..r.range(1, 2) {
                    steps.push(Step::Fault);
                }
                steps.push(Step::Give(k));
                total += k;
            }
            steps.push(Step::Fault); // and one at end of stream (never served: EOF comes first)
            Script {
                steps,
                default: k,
                family: "fault_every_boundary",
                max_consecutive: MAX_CONSECUTIVE_FAULTS,
            }
        }
        9 => {
            // long runs of consecutive faults (a retry loop must not give up): 1-3 bursts of
            // 9..=400 faults at cut positions walking with `sys`, also before the first byte
            let mut steps = vec![];
            let nb = r.range(1, 3);
            let mut at = (sys as usize % len).max(1);
            if r.chance(1, 3) {
                at = 0;
            }
            let mut longest = 0u32;
            for _ in 0..nb {
                if at > 0 {
                    steps.push(Step::Give(at));
                }
                let n = match r.below(6) {
                    0 => r.range(9, 20),
                    1 => r.range(60, 70),
                    2 => r.range(120, 135),
                    3 => r.range(250, 260),
                    4 => r.range(300, 400),
                    _ => r.range(9, 300),
                } as u32;
                longest = longest.max(n);
                for _ in 0..n {
                    steps.push(Step::Fault);
                }
                at = 1 + r.usize_below(len.min(200));
            }
            Script {
                steps,
                default: if r.chance(1, 2) { usize::MAX } else { 1 + r.usize_below(64) },
                family: "fault_burst",
                max_consecutive: longest,
            }
        }
        _ => {
            let mut steps = vec![];
            let mut total = 0usize;
            let pf = r.range(1, 6);
            while total < len && steps.len() < 4000 {
                if r.chance(pf, 12) {
                    steps.push(Step::Fault);
                } else {
                    let k = match r.below(4) {
                        0 => 1,
                        1 => r.range(1, 4) as usize,
                        2 => r.range(1, 40) as usize,
                        _ => r.range(1, 2000) as usize,
                    };
                    total += k;
                    steps.push(Step::Give(k));
                }
            }
            Script {
                steps,
                default: 1 + r.usize_below(50),
                family: "random_mix",
                max_consecutive: MAX_CONSECUTIVE_FAULTS,
            }
        }
    }
}

pub fn total_wakes() -> u64 {
    WAKES.load(Ordering::Relaxed)
}
