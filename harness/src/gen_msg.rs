//! Generator of well-formed `Message` values (DESIGN.md §4.1) and, separately, the
//! well-formedness predicate that states the quantifier of C01. A generated message that
//! fails the predicate is a harness error (inconclusive), never a violation.

use crate::refcodec::{self, mtype_of};
use crate::rng::Rng;
use dlt_core::dlt::*;

/// string chunks: 1-4 byte scalars, punctuation, XML-ish and control characters, never NUL
pub const CHUNKS: &[&str] = &[
    "a", "Z", "0", " ", "_", "é", "ß", "€", "中", "𝄞", "😀", "~", "\u{7f}", "\u{1}", "\n", "%", "/", "\"", "<",
    "&", "\u{80}", "\u{7ff}", "\u{800}", "\u{ffff}", "\u{10000}", "\u{10ffff}", "\u{fffd}", "\u{feff}",
];

pub fn gen_text(r: &mut Rng, max_bytes: usize, typical: usize) -> String {
    let target = r.size(typical, max_bytes);
    let mut s = String::with_capacity(target + 4);
    if max_bytes >= 3 && target >= 3 && r.chance(1, 24) {
        s.push('\u{feff}'); // a leading byte-order mark is ordinary text content
    }
    if target > 64 {
        // long strings: mostly ASCII filler with occasional multi-byte scalars
        while s.len() < target {
            if r.chance(1, 12) {
                let c = *r.pick(CHUNKS);
                if s.len() + c.len() > max_bytes {
                    break;
                }
                s.push_str(c);
            } else {
                s.push((b'a' + (r.below(26) as u8)) as char);
            }
        }
    } else {
        while s.len() < target {
            let c = *r.pick(CHUNKS);
            if s.len() + c.len() > max_bytes {
                break;
            }
            s.push_str(c);
        }
    }
    s
}

/// id of 0-4 bytes without NUL, any Unicode that fits
pub fn gen_id(r: &mut Rng) -> String {
    match r.below(10) {
        0 => String::new(),
        1 => "ECU1".into(),
        2 => "APP".into(),
        3 if r.chance(1, 3) => "DLT\u{1}".into(), // the storage-header pattern is a legal id
        4 if r.chance(1, 3) => "ECU".into(),       // the writer's default ECU id
        5 if r.chance(1, 4) => "NONE".into(),
        _ => {
            let target = r.range(1, 4) as usize;
            let mut s = String::new();
            for _ in 0..6 {
                let c = *r.pick(CHUNKS);
                if s.len() + c.len() <= target {
                    s.push_str(c);
                }
                if s.len() == target {
                    break;
                }
            }
            s
        }
    }
}

pub const ALL_KINDS: [TypeInfoKind; 19] = {
    use FloatWidth::*;
    use TypeLength::*;
    [
        TypeInfoKind::Bool,
        TypeInfoKind::Signed(BitLength8),
        TypeInfoKind::Signed(BitLength16),
        TypeInfoKind::Signed(BitLength32),
        TypeInfoKind::Signed(BitLength64),
        TypeInfoKind::Signed(BitLength128),
        TypeInfoKind::Unsigned(BitLength8),
        TypeInfoKind::Unsigned(BitLength16),
        TypeInfoKind::Unsigned(BitLength32),
        TypeInfoKind::Unsigned(BitLength64),
        TypeInfoKind::Unsigned(BitLength128),
        TypeInfoKind::SignedFixedPoint(Width32),
        TypeInfoKind::SignedFixedPoint(Width64),
        TypeInfoKind::UnsignedFixedPoint(Width32),
        TypeInfoKind::UnsignedFixedPoint(Width64),
        TypeInfoKind::Float(Width32),
        TypeInfoKind::Float(Width64),
        TypeInfoKind::StringType,
        TypeInfoKind::Raw,
    ]
};

pub fn gen_coding(r: &mut Rng) -> StringCoding {
    match r.below(5) {
        0 | 1 => StringCoding::ASCII,
        2 | 3 => StringCoding::UTF8,
        _ => StringCoding::Reserved(r.range(2, 7) as u8),
    }
}

fn f32_bits(r: &mut Rng) -> u32 {
    match r.below(10) {
        0 => 0x7fc0_0001,          // quiet NaN with payload
        1 => 0xff80_0001,          // signalling NaN, negative
        2 => 0x8000_0000,          // -0
        3 => 0x0000_0001,          // subnormal
        4 => 0x7f80_0000,          // +inf
        5 => 0x3f80_0000,          // 1.0
        _ => r.u32(),
    }
}
fn f64_bits(r: &mut Rng) -> u64 {
    match r.below(10) {
        0 => 0x7ff8_0000_0000_0001,
        1 => 0xfff0_0000_0000_0001,
        2 => 0x8000_0000_0000_0000,
        3 => 1,
        4 => 0x7ff0_0000_0000_0000,
        5 => 0x3ff0_0000_0000_0000,
        _ => r.next(),
    }
}

/// value of the right variant for `kind`, by bit pattern
pub fn gen_value(r: &mut Rng, kind: &TypeInfoKind, max_data: usize) -> Value {
    use FloatWidth::*;
    use TypeLength::*;
    let a = r.special64();
    let b = r.special64();
    let big = (a as u128) << 64 | b as u128;
    match kind {
        TypeInfoKind::Bool => Value::Bool(match r.below(4) {
            0 => 0,
            1 => 1,
            _ => r.u8(),
        }),
        TypeInfoKind::Signed(BitLength8) => Value::I8(a as i8),
        TypeInfoKind::Signed(BitLength16) => Value::I16(a as i16),
        TypeInfoKind::Signed(BitLength32) | TypeInfoKind::SignedFixedPoint(Width32) => Value::I32(a as i32),
        TypeInfoKind::Signed(BitLength64) | TypeInfoKind::SignedFixedPoint(Width64) => Value::I64(a as i64),
        TypeInfoKind::Signed(BitLength128) => Value::I128(big as i128),
        TypeInfoKind::Unsigned(BitLength8) => Value::U8(a as u8),
        TypeInfoKind::Unsigned(BitLength16) => Value::U16(a as u16),
        TypeInfoKind::Unsigned(BitLength32) | TypeInfoKind::UnsignedFixedPoint(Width32) => Value::U32(a as u32),
        TypeInfoKind::Unsigned(BitLength64) | TypeInfoKind::UnsignedFixedPoint(Width64) => Value::U64(a),
        TypeInfoKind::Unsigned(BitLength128) => Value::U128(big),
        TypeInfoKind::Float(Width32) => Value::F32(f32::from_bits(f32_bits(r))),
        TypeInfoKind::Float(Width64) => Value::F64(f64::from_bits(f64_bits(r))),
        TypeInfoKind::StringType if max_data >= 33_000 && r.chance(1, 3) => {
            // lengths around the 15-bit boundary and up to what fits
            let cap = max_data.min(65534);
            let n = match r.below(5) {
                0 => 32766,
                1 => 32767,
                2 => 32768,
                3 => cap,
                _ => r.range(32760, cap as u64) as usize,
            }
            .min(cap);
            let mut t = gen_text(r, n, n);
            while t.len() < n {
                t.push((b'a' + r.below(26) as u8) as char);
            }
            Value::StringVal(t)
        }
        TypeInfoKind::StringType => Value::StringVal(gen_text(r, max_data.min(65534), 12)),
        TypeInfoKind::Raw => {
            let n = if max_data >= 33_000 && r.chance(1, 3) { *r.pick(&[32767usize, 32768, 32769, max_data.min(65535)]) } else { r.size(12, max_data.min(65535)) };
            Value::Raw(r.bytes_magic(n))
        }
    }
}

pub fn is_numeric(k: &TypeInfoKind) -> bool {
    !matches!(k, TypeInfoKind::Bool | TypeInfoKind::StringType | TypeInfoKind::Raw)
}

/// one well-formed argument of the given kind; `budget` bounds variable-size parts
pub fn gen_arg_of(r: &mut Rng, kind: TypeInfoKind, vari: bool, budget: usize) -> Argument {
    let ti = TypeInfo {
        kind: kind.clone(),
        coding: gen_coding(r),
        has_variable_info: vari,
        has_trace_info: r.chance(1, 4),
    };
    let text_budget = (budget / 4).min(65534);
    // rarely one of name / unit is huge: lengths around the 15-bit boundary 32767 and up to the field maximum
    let huge = if vari && budget >= 40_000 && r.chance(1, 6) { 1 + r.below(2) } else { 0 };
    let huge_len = |r: &mut Rng| -> usize {
        let cap = (budget - 2_000).min(65534);
        match r.below(6) {
            0 => 32766,
            1 => 32767,
            2 => 32768,
            3 => cap,
            _ => r.range(32760, cap as u64) as usize,
        }
        .min(cap)
    };
    let exact_text = |r: &mut Rng, n: usize| -> String {
        let mut t = gen_text(r, n, n);
        while t.len() < n {
            t.push((b'a' + r.below(26) as u8) as char);
        }
        t
    };
    let name = if vari {
        if huge == 1 {
            let n = huge_len(r);
            Some(exact_text(r, n))
        } else {
            Some(gen_text(r, text_budget, 6))
        }
    } else {
        None
    };
    let unit = if vari && is_numeric(&kind) {
        if huge == 2 {
            let n = huge_len(r);
            Some(exact_text(r, n))
        } else {
            Some(gen_text(r, text_budget, 4))
        }
    } else {
        None
    };
    let budget = if huge > 0 { 1_900 } else { budget };
    let fixed_point = match kind {
        TypeInfoKind::SignedFixedPoint(w) | TypeInfoKind::UnsignedFixedPoint(w) => Some(FixedPoint {
            quantization: f32::from_bits(f32_bits(r)),
            offset: match w {
                FloatWidth::Width32 => FixedPointValue::I32(r.special64() as i32),
                FloatWidth::Width64 => FixedPointValue::I64(r.special64() as i64),
            },
        }),
        _ => None,
    };
    let used = name.as_ref().map_or(0, |n| n.len() + 3) + unit.as_ref().map_or(0, |n| n.len() + 3) + 8;
    let value_budget = if matches!(kind, TypeInfoKind::StringType | TypeInfoKind::Raw) && r.chance(1, 3) { budget.saturating_sub(used) } else { budget / 2 };
    let value = gen_value(r, &kind, value_budget);
    Argument {
        type_info: ti,
        name,
        unit,
        fixed_point,
        value,
    }
}

pub fn gen_arg(r: &mut Rng, budget: usize) -> Argument {
    let kind = r.pick(&ALL_KINDS).clone();
    let vari = r.chance(1, 2);
    gen_arg_of(r, kind, vari, budget)
}

/// serialised size of a well-formed argument per the layout (independent of the crate)
pub fn arg_size(a: &Argument) -> usize {
    let mut v = vec![];
    refcodec::encode_argument(&mut v, a, false);
    v.len()
}

#[derive(Clone, Copy, PartialEq, Eq, Debug, Hash)]
pub enum PKind {
    Verbose,
    NonVerbose,
    Control,
    NetworkTrace,
}

#[derive(Clone, Debug)]
pub struct GenOpts {
    /// upper bound for the total serialised length without storage header (<= 65535)
    pub max_total: usize,
    /// typical upper bound; most messages stay below this
    pub typical_total: usize,
    pub force_kind: Option<PKind>,
    pub force_storage: Option<bool>,
    pub force_htyp_flags: Option<u8>,
    /// allow the rare huge/boundary layouts (255 args, total exactly 65535)
    pub boundaries: bool,
    /// the serialised length (without storage header) is exactly `max_total`
    pub force_exact: bool,
}

impl GenOpts {
    /// a message whose total length is one of the 16 largest the length field can express
    /// (65520..=65535): with a storage header it is longer than 65535 bytes
    pub fn near_max(r: &mut Rng) -> GenOpts {
        let mut o = GenOpts::normal();
        o.max_total = 65535 - r.below(16) as usize;
        o.force_exact = true;
        o
    }
}

impl GenOpts {
    pub fn normal() -> GenOpts {
        GenOpts {
            max_total: 65535,
            typical_total: 400,
            force_kind: None,
            force_storage: None,
            force_htyp_flags: None,
            boundaries: true,
            force_exact: false,
        }
    }
    pub fn small() -> GenOpts {
        GenOpts {
            max_total: 300,
            typical_total: 120,
            force_kind: None,
            force_storage: None,
            force_htyp_flags: None,
            boundaries: false,
            force_exact: false,
        }
    }
}

fn gen_msin_for(r: &mut Rng, kind: PKind) -> u8 {
    // MSIN bits 1-7 compatible with the payload kind; bit 0 set by the caller
    loop {
        let b = r.u8() & 0xFE;
        let mstp = (b >> 1) & 7;
        let ok = match kind {
            PKind::Verbose => mstp != 2,
            PKind::NetworkTrace => mstp == 2,
            PKind::Control => mstp == 3,
            PKind::NonVerbose => mstp != 3,
        };
        if ok {
            return b;
        }
        // bias towards the required type
        if r.chance(1, 2) {
            let mstp = match kind {
                PKind::NetworkTrace => 2,
                PKind::Control => 3,
                _ => 0,
            };
            return (b & 0xF0) | (mstp << 1);
        }
    }
}

/// A well-formed message whose standard header serialises to the four bytes of the storage-header
/// pattern: HTYP 0x44 (version 2, ECU id, little endian, no extended header), counter 0x4C,
/// length 0x5401. Legal, but looks like the start of a storage header.
pub fn pattern_start_msg(r: &mut Rng, storage: bool) -> Message {
    let payload = PayloadContent::NonVerbose(r.special64() as u32, r.bytes_magic(0x5401 - 8 - 4));
    Message {
        storage_header: if storage {
            Some(StorageHeader {
                timestamp: DltTimeStamp {
                    seconds: r.special64() as u32,
                    microseconds: r.special64() as u32,
                },
                ecu_id: gen_id(r),
            })
        } else {
            None
        },
        header: StandardHeader {
            version: 2,
            endianness: Endianness::Little,
            has_extended_header: false,
            message_counter: 0x4C,
            ecu_id: Some(gen_id(r)),
            session_id: None,
            timestamp: None,
            payload_length: 0x5401 - 8,
        },
        extended_header: None,
        payload,
    }
}

/// A random well-formed message.
pub fn gen_msg(r: &mut Rng, o: &GenOpts) -> Message {
    if o.boundaries && !o.force_exact && o.max_total >= 0x5401 && o.force_kind.is_none() && o.force_htyp_flags.is_none() && r.chance(1, 150) {
        let storage = o.force_storage.unwrap_or_else(|| r.chance(1, 2));
        return pattern_start_msg(r, storage);
    }
    let kind = o.force_kind.unwrap_or_else(|| match r.below(20) {
        0..=8 => PKind::Verbose,
        9..=12 => PKind::NonVerbose,
        13..=15 => PKind::Control,
        _ => PKind::NetworkTrace,
    });
    let flags = o.force_htyp_flags.unwrap_or_else(|| r.u8());
    let be = flags & 2 != 0;
    let has_ext = match kind {
        PKind::NonVerbose => flags & 1 != 0,
        _ => true,
    };
    let ecu_id = if flags & 4 != 0 { Some(gen_id(r)) } else { None };
    let session_id = if flags & 8 != 0 { Some(r.special64() as u32) } else { None };
    let timestamp = if flags & 16 != 0 { Some(r.special64() as u32) } else { None };
    let version = if r.chance(1, 2) { 1 } else { r.below(8) as u8 };
    let hdr = 4
        + 4 * ecu_id.is_some() as usize
        + 4 * session_id.is_some() as usize
        + 4 * timestamp.is_some() as usize
        + 10 * has_ext as usize;
    let max_payload = o.max_total.min(65535) - hdr;
    // payload budget: mostly typical, sometimes up to the maximum
    let mode = if o.force_exact {
        0
    } else if o.boundaries {
        r.below(100)
    } else {
        50
    };
    let budget = match mode {
        0 => max_payload,                       // exact boundary (total = max_total)
        1 => max_payload.saturating_sub(1),     // one below
        2..=5 => r.usize_below(max_payload + 1), // anything
        _ => r.usize_below(o.typical_total.min(max_payload) + 1),
    };
    let exact = (o.boundaries && mode <= 1) || o.force_exact;
    let payload = match kind {
        PKind::Verbose => {
            let mut args: Vec<Argument> = vec![];
            let mut used = 0usize;
            let want = match r.below(40) {
                0 | 1 => 0,
                2 => 255,
                3..=6 => r.range(6, 40) as usize,
                _ => r.range(1, 5) as usize,
            };
            for _ in 0..want {
                let left = budget - used;
                if left < 5 {
                    break;
                }
                let mut a = gen_arg(r, if want > 40 { left.min(24) } else { left });
                let mut sz = arg_size(&a);
                if sz > left {
                    // fall back to something that fits: a bool without name is 5 bytes
                    a = gen_arg_of(r, TypeInfoKind::Bool, false, 0);
                    sz = arg_size(&a);
                }
                used += sz;
                args.push(a);
            }
            if exact && args.len() < 255 && budget - used >= 6 {
                // fill to the exact size with a raw or string argument
                let left = budget - used;
                if r.chance(1, 2) || left < 7 {
                    let n = left - 6;
                    args.push(Argument {
                        type_info: TypeInfo {
                            kind: TypeInfoKind::Raw,
                            coding: StringCoding::ASCII,
                            has_variable_info: false,
                            has_trace_info: false,
                        },
                        name: None,
                        unit: None,
                        fixed_point: None,
                        value: Value::Raw(r.bytes(n)),
                    });
                } else {
                    let n = left - 7;
                    let mut s = String::with_capacity(n);
                    while s.len() < n {
                        if n - s.len() >= 4 && r.chance(1, 50) {
                            s.push('𝄞');
                        } else {
                            s.push((b'a' + r.below(26) as u8) as char);
                        }
                    }
                    args.push(Argument {
                        type_info: TypeInfo {
                            kind: TypeInfoKind::StringType,
                            coding: StringCoding::UTF8,
                            has_variable_info: false,
                            has_trace_info: false,
                        },
                        name: None,
                        unit: None,
                        fixed_point: None,
                        value: Value::StringVal(s),
                    });
                }
            }
            PayloadContent::Verbose(args)
        }
        PKind::NonVerbose => {
            let n = budget.saturating_sub(4);
            let n = if exact { n } else { r.size(12, n) };
            PayloadContent::NonVerbose(r.special64() as u32, r.bytes_magic(n))
        }
        PKind::Control => {
            let n = budget.saturating_sub(1);
            let n = if exact { n } else { r.size(12, n) };
            PayloadContent::ControlMsg(refcodec::service_id_of(r.u8()), r.bytes_magic(n))
        }
        PKind::NetworkTrace => {
            let mut slices = vec![];
            let mut used = 0usize;
            let want = match r.below(30) {
                0 => 0,
                1 => 255,
                _ => r.range(1, 5) as usize,
            };
            for _ in 0..want {
                let left = budget - used;
                if left < 6 {
                    break;
                }
                let n = r.size(12, if want > 40 { (left - 6).min(8) } else { left - 6 });
                used += 6 + n;
                slices.push(r.bytes_magic(n));
            }
            if exact && slices.len() < 255 && budget - used >= 6 {
                let n = budget - used - 6;
                slices.push(r.bytes(n));
            }
            PayloadContent::NetworkTrace(slices)
        }
    };
    let payload_length = payload_size(&payload) as u16;
    let extended_header = if has_ext {
        let bits = gen_msin_for(r, kind);
        let (verbose, argument_count) = match &payload {
            PayloadContent::Verbose(a) => (true, a.len() as u8),
            PayloadContent::NetworkTrace(s) => (true, s.len() as u8),
            _ => (false, r.u8()),
        };
        Some(ExtendedHeader {
            verbose,
            argument_count,
            message_type: mtype_of(bits),
            application_id: gen_id(r),
            context_id: gen_id(r),
        })
    } else {
        None
    };
    let storage = o.force_storage.unwrap_or_else(|| r.chance(1, 2));
    let storage_header = if storage {
        Some(StorageHeader {
            timestamp: DltTimeStamp {
                seconds: r.special64() as u32,
                microseconds: r.special64() as u32,
            },
            ecu_id: gen_id(r),
        })
    } else {
        None
    };
    Message {
        storage_header,
        header: StandardHeader {
            version,
            endianness: if be { Endianness::Big } else { Endianness::Little },
            has_extended_header: has_ext,
            message_counter: r.u8(),
            ecu_id,
            session_id,
            timestamp,
            payload_length,
        },
        extended_header,
        payload,
    }
}

/// serialised payload size per the layout
pub fn payload_size(p: &PayloadContent) -> usize {
    match p {
        PayloadContent::Verbose(a) => a.iter().map(arg_size).sum(),
        PayloadContent::NonVerbose(_, d) => 4 + d.len(),
        PayloadContent::ControlMsg(_, d) => 1 + d.len(),
        PayloadContent::NetworkTrace(s) => s.iter().map(|x| 6 + x.len()).sum(),
    }
}

pub const SYS_DIMENSIONS: u64 = 4;
/// number of systematic cases before the walk repeats
pub const SYS_PERIOD: u64 = 4 * 256;

/// Systematic layer: walks one small dimension completely (index-driven), all other choices
/// random. Dimension 0: the 32 HTYP flag sets x storage; 1: all 256 MSIN bytes;
/// 2: 19 argument kinds x VARI x byte order; 3: payload kinds x boundary sizes.
pub fn gen_systematic(r: &mut Rng, sys_index: u64) -> (Message, String) {
    let dim = sys_index % SYS_DIMENSIONS;
    let k = sys_index / SYS_DIMENSIONS;
    let mut o = GenOpts::small();
    match dim {
        0 => {
            let flags = (k % 32) as u8;
            let storage = (k / 32) % 2 == 1;
            let version = ((k / 64) % 8) as u8;
            // UEH flag decides the payload kinds that are possible
            o.force_htyp_flags = Some(flags);
            o.force_storage = Some(storage);
            if flags & 1 == 0 {
                o.force_kind = Some(PKind::NonVerbose);
            } else if r.chance(1, 4) {
                o.force_kind = Some(PKind::NonVerbose);
            } else {
                o.force_kind = Some(*r.pick(&[PKind::Verbose, PKind::Control, PKind::NetworkTrace]));
            }
            let mut m = gen_msg(r, &o);
            m.header.version = version;
            (m, format!("flags:{}:{}", flags, storage as u8))
        }
        1 => {
            let msin = (k % 256) as u8;
            let mstp = (msin >> 1) & 7;
            let kind = if msin & 1 != 0 {
                if mstp == 2 {
                    PKind::NetworkTrace
                } else {
                    PKind::Verbose
                }
            } else if mstp == 3 {
                PKind::Control
            } else {
                PKind::NonVerbose
            };
            o.force_kind = Some(kind);
            o.force_htyp_flags = Some(r.u8() | 1);
            let mut m = gen_msg(r, &o);
            if let Some(x) = m.extended_header.as_mut() {
                x.message_type = mtype_of(msin);
            }
            (m, format!("msin:{}", msin))
        }
        2 => {
            let kind_i = (k % 19) as usize;
            let vari = (k / 19) % 2 == 1;
            let be = (k / 38) % 2 == 1;
            o.force_kind = Some(PKind::Verbose);
            o.force_htyp_flags = Some((r.u8() & !2) | 1 | if be { 2 } else { 0 });
            let mut m = gen_msg(r, &o);
            let a = gen_arg_of(r, ALL_KINDS[kind_i].clone(), vari, 60);
            let label = format!("kind:{}:{}:{}", refcodec::kind_name(&a.type_info.kind), vari as u8, be as u8);
            m.payload = PayloadContent::Verbose(vec![a]);
            m.header.payload_length = payload_size(&m.payload) as u16;
            if let Some(x) = m.extended_header.as_mut() {
                x.argument_count = 1;
            }
            (m, label)
        }
        _ => {
            let kinds = [PKind::Verbose, PKind::NonVerbose, PKind::Control, PKind::NetworkTrace];
            let kind = kinds[(k % 4) as usize];
            let variant = (k / 4) % 4;
            let mut o = GenOpts::normal();
            o.force_kind = Some(kind);
            o.typical_total = 60;
            let mut m = gen_msg(r, &o);
            // empty payload variants where the layout allows them
            if variant == 0 {
                match kind {
                    PKind::Verbose => m.payload = PayloadContent::Verbose(vec![]),
                    PKind::NetworkTrace => m.payload = PayloadContent::NetworkTrace(vec![]),
                    PKind::NonVerbose => m.payload = PayloadContent::NonVerbose(r.u32(), vec![]),
                    PKind::Control => m.payload = PayloadContent::ControlMsg(refcodec::service_id_of(r.u8()), vec![]),
                }
                m.header.payload_length = payload_size(&m.payload) as u16;
                if let Some(x) = m.extended_header.as_mut() {
                    if x.verbose {
                        x.argument_count = 0;
                    }
                }
            }
            (m, format!("pk:{:?}:{}", kind, variant))
        }
    }
}

// ------------------------------------------------------------------ well-formedness predicate

fn id_ok(s: &str) -> bool {
    s.len() <= 4 && !s.as_bytes().contains(&0)
}
fn text_ok(s: &str) -> bool {
    !s.as_bytes().contains(&0)
}

fn canonical_mtype(mt: &MessageType) -> bool {
    // a code is canonical iff decoding its bit pattern yields the same variant
    let bits = refcodec::msin_bits(mt);
    let fits = match mt {
        MessageType::Log(LogLevel::Invalid(n)) => *n < 16,
        MessageType::ApplicationTrace(ApplicationTraceType::Invalid(n)) => *n < 16,
        MessageType::NetworkTrace(NetworkTraceType::UserDefined(n)) => *n < 16,
        MessageType::Control(ControlType::Unknown(n)) => *n < 16,
        MessageType::Unknown((a, b)) => *a < 8 && *b < 16,
        _ => true,
    };
    fits && &mtype_of(bits) == mt
}

pub fn arg_wellformed(a: &Argument) -> Result<(), String> {
    let k = &a.type_info.kind;
    let numeric = is_numeric(k);
    if let StringCoding::Reserved(v) = a.type_info.coding {
        if !(2..=7).contains(&v) {
            return Err(format!("non-canonical string coding {}", v));
        }
    }
    match (a.type_info.has_variable_info, &a.name, &a.unit) {
        (false, None, None) => {}
        (true, Some(_), Some(_)) if numeric => {}
        (true, Some(_), None) if !numeric => {}
        _ => return Err("name/unit presence does not match VARI/kind".into()),
    }
    if let Some(n) = &a.name {
        if !text_ok(n) || n.len() > 65534 {
            return Err("bad name".into());
        }
    }
    if let Some(n) = &a.unit {
        if !text_ok(n) || n.len() > 65534 {
            return Err("bad unit".into());
        }
    }
    use FloatWidth::*;
    use TypeLength::*;
    let ok = match (k, &a.value, &a.fixed_point) {
        (TypeInfoKind::Bool, Value::Bool(_), None) => true,
        (TypeInfoKind::Signed(BitLength8), Value::I8(_), None) => true,
        (TypeInfoKind::Signed(BitLength16), Value::I16(_), None) => true,
        (TypeInfoKind::Signed(BitLength32), Value::I32(_), None) => true,
        (TypeInfoKind::Signed(BitLength64), Value::I64(_), None) => true,
        (TypeInfoKind::Signed(BitLength128), Value::I128(_), None) => true,
        (TypeInfoKind::Unsigned(BitLength8), Value::U8(_), None) => true,
        (TypeInfoKind::Unsigned(BitLength16), Value::U16(_), None) => true,
        (TypeInfoKind::Unsigned(BitLength32), Value::U32(_), None) => true,
        (TypeInfoKind::Unsigned(BitLength64), Value::U64(_), None) => true,
        (TypeInfoKind::Unsigned(BitLength128), Value::U128(_), None) => true,
        (TypeInfoKind::SignedFixedPoint(Width32), Value::I32(_), Some(FixedPoint { offset: FixedPointValue::I32(_), .. })) => true,
        (TypeInfoKind::SignedFixedPoint(Width64), Value::I64(_), Some(FixedPoint { offset: FixedPointValue::I64(_), .. })) => true,
        (TypeInfoKind::UnsignedFixedPoint(Width32), Value::U32(_), Some(FixedPoint { offset: FixedPointValue::I32(_), .. })) => true,
        (TypeInfoKind::UnsignedFixedPoint(Width64), Value::U64(_), Some(FixedPoint { offset: FixedPointValue::I64(_), .. })) => true,
        (TypeInfoKind::Float(Width32), Value::F32(_), None) => true,
        (TypeInfoKind::Float(Width64), Value::F64(_), None) => true,
        (TypeInfoKind::StringType, Value::StringVal(s), None) => text_ok(s) && s.len() <= 65534,
        (TypeInfoKind::Raw, Value::Raw(d), None) => d.len() <= 65535,
        _ => false,
    };
    if !ok {
        return Err("value / fixed-point data do not match the type info".into());
    }
    Ok(())
}

/// The quantifier of C01, clause by clause.
pub fn wellformed(m: &Message) -> Result<(), String> {
    if let Some(s) = &m.storage_header {
        if !id_ok(&s.ecu_id) {
            return Err("storage ecu id".into());
        }
    }
    let h = &m.header;
    if h.version > 7 {
        return Err("version".into());
    }
    if let Some(e) = &h.ecu_id {
        if !id_ok(e) {
            return Err("header ecu id".into());
        }
    }
    if h.has_extended_header != m.extended_header.is_some() {
        return Err("extended-header flag".into());
    }
    if let Some(x) = &m.extended_header {
        if !id_ok(&x.application_id) || !id_ok(&x.context_id) {
            return Err("app/context id".into());
        }
        if !canonical_mtype(&x.message_type) {
            return Err("non-canonical message type".into());
        }
    }
    let is_nw = matches!(
        m.extended_header.as_ref().map(|x| &x.message_type),
        Some(MessageType::NetworkTrace(_))
    );
    let is_ctrl = matches!(
        m.extended_header.as_ref().map(|x| &x.message_type),
        Some(MessageType::Control(_))
    );
    match (&m.payload, &m.extended_header) {
        (PayloadContent::Verbose(args), Some(x)) => {
            if !x.verbose || args.len() > 255 || x.argument_count as usize != args.len() || is_nw {
                return Err("verbose payload vs extended header".into());
            }
            for a in args {
                arg_wellformed(a)?;
            }
        }
        (PayloadContent::NetworkTrace(s), Some(x)) => {
            if !x.verbose || s.len() > 255 || x.argument_count as usize != s.len() || !is_nw {
                return Err("network-trace payload vs extended header".into());
            }
            if s.iter().any(|d| d.len() > 65535) {
                return Err("slice too long".into());
            }
        }
        (PayloadContent::ControlMsg(c, _), Some(x)) => {
            if x.verbose || !is_ctrl {
                return Err("control payload vs extended header".into());
            }
            if let ControlType::Unknown(n) = c {
                if *n == 1 || *n == 2 {
                    return Err("non-canonical service id".into());
                }
            }
        }
        (PayloadContent::NonVerbose(..), None) => {}
        (PayloadContent::NonVerbose(..), Some(x)) => {
            if x.verbose || is_ctrl {
                return Err("non-verbose payload vs extended header".into());
            }
        }
        _ => return Err("payload kind needs an extended header".into()),
    }
    let ps = payload_size(&m.payload);
    if ps != h.payload_length as usize {
        return Err(format!("payload_length {} != serialised {}", h.payload_length, ps));
    }
    let total = refcodec::headers_len(refcodec::htyp_of(h)) + ps;
    if total > 65535 {
        return Err(format!("total length {} > 65535", total));
    }
    Ok(())
}


/// A message of exactly the same shape as `m` (same headers, payload kind, argument kinds,
/// lengths, counts, byte order) but different content: what a cache keyed on the shape of a
/// message instead of its identity confuses with `m`.
pub fn twin(m: &Message) -> Message {
    let mut t = m.clone();
    let flip = |d: &mut Vec<u8>| {
        for x in d.iter_mut() {
            *x = x.wrapping_add(1);
        }
    };
    match &mut t.payload {
        PayloadContent::NonVerbose(id, d) => {
            *id = id.wrapping_add(1);
            flip(d);
        }
        PayloadContent::ControlMsg(c, d) => {
            *c = match c {
                ControlType::Request => ControlType::Response,
                ControlType::Response => ControlType::Request,
                ControlType::Unknown(n) => ControlType::Unknown(if *n >= 254 || *n < 3 { 3 } else { *n + 1 }),
            };
            flip(d);
        }
        PayloadContent::NetworkTrace(s) => {
            for d in s.iter_mut() {
                flip(d);
            }
        }
        PayloadContent::Verbose(args) => {
            for a in args.iter_mut() {
                a.value = match &a.value {
                    Value::Bool(v) => Value::Bool(v ^ 1),
                    Value::U8(v) => Value::U8(v.wrapping_add(1)),
                    Value::U16(v) => Value::U16(v.wrapping_add(1)),
                    Value::U32(v) => Value::U32(v.wrapping_add(1)),
                    Value::U64(v) => Value::U64(v.wrapping_add(1)),
                    Value::U128(v) => Value::U128(v.wrapping_add(1)),
                    Value::I8(v) => Value::I8(v.wrapping_add(1)),
                    Value::I16(v) => Value::I16(v.wrapping_add(1)),
                    Value::I32(v) => Value::I32(v.wrapping_add(1)),
                    Value::I64(v) => Value::I64(v.wrapping_add(1)),
                    Value::I128(v) => Value::I128(v.wrapping_add(1)),
                    Value::F32(v) => Value::F32(f32::from_bits(v.to_bits() ^ 1)),
                    Value::F64(v) => Value::F64(f64::from_bits(v.to_bits() ^ 1)),
                    Value::StringVal(s) => Value::StringVal(s.chars().map(|c| if c == 'a' { 'b' } else if c.is_ascii_lowercase() { 'a' } else { c }).collect()),
                    Value::Raw(d) => {
                        let mut d = d.clone();
                        flip(&mut d);
                        Value::Raw(d)
                    }
                };
            }
        }
    }
    t.header.message_counter = t.header.message_counter.wrapping_add(1);
    t
}

/// the same bytes with the byte-order flag (MSBF) of the standard header flipped: every
/// payload field keeps its raw bytes but is to be read in the other byte order
pub fn other_byte_order(bytes: &[u8], with_storage_header: bool) -> Vec<u8> {
    let mut b = bytes.to_vec();
    let s = if with_storage_header { 16 } else { 0 };
    if b.len() > s {
        b[s] ^= 2;
    }
    b
}
