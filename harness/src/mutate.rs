//! Structure-aware and blind byte mutators (DESIGN.md §4.3). Structure-aware operators use
//! the field map of the reference encoder to hit length fields, counts, type-info words,
//! terminators and ids precisely.

use crate::refcodec::{Encoded, Field};
use crate::rng::Rng;

pub const INVALID_UTF8: &[&[u8]] = &[
    &[0x80],                   // lone continuation
    &[0xC3],                   // truncated 2-byte
    &[0xE2, 0x82],             // truncated 3-byte
    &[0xF0, 0x9F, 0x98],       // truncated 4-byte
    &[0xC0, 0xAF],             // overlong
    &[0xE0, 0x80, 0xAF],       // overlong 3
    &[0xED, 0xA0, 0x80],       // surrogate
    &[0xF4, 0x90, 0x80, 0x80], // > U+10FFFF
    &[0xFF],
    &[0xFE],
    // encodings that lenient decoders accept although they are not UTF-8
    &[0xED, 0xA0, 0xBD, 0xED, 0xB8, 0x80], // CESU-8: surrogate pair D83D DE00 in 3-byte form
    &[0xED, 0xA0, 0x80, 0xED, 0xB0, 0x80], // CESU-8: D800 DC00
    &[0xED, 0xAF, 0xBF, 0xED, 0xBF, 0xBF], // CESU-8: DBFF DFFF
    &[0xED, 0xB0, 0x80],                   // lone low surrogate
    &[0xC0, 0x80],                         // "modified UTF-8" NUL
    &[0xF0, 0x80, 0x80, 0xAF],             // overlong 4
    &[0xF8, 0x88, 0x80, 0x80, 0x80],       // 5-byte form
    &[0xFC, 0x84, 0x80, 0x80, 0x80, 0x80], // 6-byte form
    &[0xF5, 0x80, 0x80, 0x80],             // lead byte F5
    &[0xEF, 0xBF],                         // truncated U+FFFE/FFFF region
];

pub const OPS: &[&str] = &[
    "len_set",
    "noar_set",
    "htyp_flip",
    "msin_set",
    "typeinfo",
    "len_prefix",
    "terminator",
    "bad_utf8",
    "swap_msbf",
    "arg_dup_drop",
    "truncate",
    "junk_front",
    "tail",
    "blind",
    "big_tail",
    "pattern_inside",
];

fn pick_field<'a>(r: &mut Rng, e: &'a Encoded, labels: &[&str]) -> Option<&'a Field> {
    let v: Vec<&Field> = e.fields.iter().filter(|f| labels.contains(&f.label)).collect();
    if v.is_empty() {
        None
    } else {
        Some(v[r.usize_below(v.len())])
    }
}

fn write_int(b: &mut [u8], f: &Field, v: u64, be: bool) {
    let n = f.end - f.start;
    for i in 0..n {
        let byte = (v >> (8 * i)) as u8;
        if be {
            b[f.end - 1 - i] = byte;
        } else {
            b[f.start + i] = byte;
        }
    }
}
fn read_int(b: &[u8], f: &Field, be: bool) -> u64 {
    let n = f.end - f.start;
    let mut v = 0u64;
    for i in 0..n {
        let byte = if be { b[f.end - 1 - i] } else { b[f.start + i] } as u64;
        v |= byte << (8 * i);
    }
    v
}

/// junk that never contains the full storage pattern but likes to contain partial ones
pub fn gen_junk(r: &mut Rng, n: usize) -> Vec<u8> {
    let mut v = Vec::with_capacity(n);
    let style = r.below(4);
    while v.len() < n {
        let b = match style {
            0 => *r.pick(&[b'D', b'L', b'T', 0x01, b'x', 0x00]),
            1 => r.u8(),
            2 => b'D',
            _ => *r.pick(&[0x44u8, 0x4C, 0x54, 0x00, 0x02, 0xFF]),
        };
        v.push(b);
        let l = v.len();
        if l >= 4 && v[l - 4..] == [0x44, 0x4C, 0x54, 0x01] {
            v[l - 1] = 0x02;
        }
    }
    v
}

/// Pattern-free junk of a *regular* shape (one byte repeated, near-miss patterns repeated, long runs of a few
/// values): the shapes on which a search or a diagnostic that is not linear in the junk length shows.
pub fn gen_regular_junk(r: &mut Rng, n: usize) -> Vec<u8> {
    let unit: Vec<u8> = match r.below(8) {
        0 => vec![0x00],
        1 => vec![0xFF],
        2 => vec![r.u8()],
        3 => vec![b'D'],
        4 => vec![b'D', b'L', b'T'],
        5 => vec![b'D', b'L', b'T', 0x02],
        6 => vec![b'D', b'D', b'L', b'T', 0x00, 0x01],
        _ => vec![0x01],
    };
    let mut v: Vec<u8> = if r.chance(1, 4) {
        // long runs of alternating values
        let mut v = Vec::with_capacity(n);
        let vals = [unit[0], r.u8(), 0x00];
        let mut k = 0;
        while v.len() < n {
            let run = r.range(1000, 400_000) as usize;
            let b = vals[k % 3];
            k += 1;
            let take = run.min(n - v.len());
            v.extend(std::iter::repeat(b).take(take));
        }
        v
    } else {
        (0..n).map(|k| unit[k % unit.len()]).collect()
    };
    // no accidental pattern (the units above cannot form one, the alternating runs could at a seam)
    let mut i = 0;
    while i + 4 <= v.len() {
        if v[i..i + 4] == [0x44, 0x4C, 0x54, 0x01] {
            v[i + 3] = 0x02;
        }
        i += 1;
    }
    v
}

/// Apply one operator; returns its name. `light` forbids the huge-tail operators.
pub fn mutate_once(r: &mut Rng, e: &Encoded, b: &mut Vec<u8>, light: bool) -> &'static str {
    let be_payload = b.len() > e.std_start && b[e.std_start] & 2 != 0;
    // fields refer to the original layout; once sizes changed (insert/delete) we only do blind ops
    let intact = b.len() == e.bytes.len();
    let choice = if intact { r.below(16) } else { 9 + r.below(7) };
    match choice {
        0 => {
            if let Some(f) = e.find("std.len") {
                let orig = read_int(b, f, true);
                let h = crate::refcodec::headers_len(b[e.std_start]) as u64;
                let v = match r.below(12) {
                    0 => 0,
                    1 => 3,
                    2 => 4,
                    3 => h.saturating_sub(1),
                    4 => h,
                    5 => h + 1,
                    6 => orig.wrapping_sub(r.range(1, 9)),
                    7 => orig + r.range(1, 9),
                    8 => 65535,
                    9 => r.below(4),
                    10 => h + r.below(6),
                    _ => r.below(65536),
                } & 0xFFFF;
                write_int(b, f, v, true);
            }
            "len_set"
        }
        1 => {
            if let Some(f) = e.find("ext.noar") {
                let orig = b[f.start];
                b[f.start] = match r.below(5) {
                    0 => 0,
                    1 => orig.wrapping_add(1),
                    2 => orig.wrapping_sub(1),
                    3 => 255,
                    _ => r.u8(),
                };
            }
            "noar_set"
        }
        2 => {
            b[e.std_start] ^= 1 << r.below(8);
            "htyp_flip"
        }
        3 => {
            if let Some(f) = e.find("ext.msin") {
                if r.chance(1, 2) {
                    b[f.start] ^= 1 << r.below(8);
                } else {
                    b[f.start] = r.u8();
                }
            }
            "msin_set"
        }
        4 => {
            if let Some(f) = pick_field(r, e, &["arg.typeinfo"]) {
                let orig = read_int(b, f, be_payload);
                let v = match r.below(8) {
                    0 => r.next() & 0xFFFF_FFFF,
                    1 | 2 => orig ^ (1 << r.below(32)),
                    3 => 0xFFFF_FFFF,
                    4 => orig | (1 << r.range(4, 10)),
                    5 => (orig & !0xF) | r.below(16),
                    6 => orig ^ (1 << 11),
                    _ => orig ^ (1 << 12),
                };
                write_int(b, f, v, be_payload);
            }
            "typeinfo"
        }
        5 => {
            if let Some(f) = pick_field(r, e, &["arg.strlen", "arg.rawlen", "arg.namelen", "arg.unitlen"]) {
                let orig = read_int(b, f, be_payload);
                let v = match r.below(8) {
                    0 => 0,
                    1 => 1,
                    2 => orig.wrapping_sub(1),
                    3 => orig + 1,
                    4 => 0xFFFF,
                    5 => orig + r.range(2, 40),
                    6 => orig.wrapping_sub(r.range(2, 10)),
                    _ => r.below(65536),
                } & 0xFFFF;
                write_int(b, f, v, be_payload);
            }
            "len_prefix"
        }
        6 => {
            if let Some(f) = pick_field(r, e, &["arg.name", "arg.unit", "arg.value", "std.ecu", "ext.apid", "ext.ctid", "storage.ecu"]) {
                if f.end > f.start {
                    if r.chance(1, 2) {
                        // remove the terminator / padding
                        b[f.end - 1] = b'x';
                    } else {
                        // early NUL
                        let i = f.start + r.usize_below(f.end - f.start);
                        b[i] = 0;
                    }
                }
            }
            "terminator"
        }
        7 => {
            if let Some(f) = pick_field(r, e, &["arg.name", "arg.unit", "arg.value", "std.ecu", "ext.apid", "ext.ctid", "storage.ecu"]) {
                let bad = *r.pick(INVALID_UTF8);
                let n = f.end - f.start;
                if n >= bad.len() && n > 0 {
                    let i = f.start + r.usize_below(n - bad.len() + 1);
                    b[i..i + bad.len()].copy_from_slice(bad);
                }
            }
            "bad_utf8"
        }
        8 => {
            b[e.std_start] ^= 2;
            "swap_msbf"
        }
        9 => {
            // duplicate or drop one argument's bytes
            let args: Vec<u16> = e.fields.iter().filter_map(|f| f.arg).collect();
            if intact && !args.is_empty() {
                let a = args[r.usize_below(args.len())];
                let start = e.fields.iter().filter(|f| f.arg == Some(a)).map(|f| f.start).min().unwrap_or(0);
                let end = e.fields.iter().filter(|f| f.arg == Some(a)).map(|f| f.end).max().unwrap_or(0);
                if end > start && end <= b.len() {
                    if r.chance(1, 2) {
                        let seg = b[start..end].to_vec();
                        let tail = b.split_off(end);
                        b.extend_from_slice(&seg);
                        b.extend_from_slice(&tail);
                    } else {
                        b.drain(start..end);
                    }
                }
            } else if !b.is_empty() {
                let i = r.usize_below(b.len());
                b.remove(i);
            }
            "arg_dup_drop"
        }
        10 => {
            let n = r.usize_below(b.len() + 1);
            b.truncate(n);
            "truncate"
        }
        11 => {
            let n = r.size(6, 40);
            let mut j = gen_junk(r, n);
            // junk may end with a partial pattern
            if r.chance(1, 3) {
                let k = r.range(1, 3) as usize;
                j.extend_from_slice(&[0x44, 0x4C, 0x54][..k]);
            }
            j.extend_from_slice(b);
            *b = j;
            "junk_front"
        }
        12 => {
            let n = r.size(8, 64);
            match r.below(4) {
                0 => b.extend(std::iter::repeat(0u8).take(n)),
                1 => b.extend(std::iter::repeat(b'A').take(n)),
                2 => {
                    let t = r.bytes(n);
                    b.extend(t)
                }
                _ => {
                    // another copy of the message start: parseable continuation
                    let k = e.bytes.len().min(n.max(20));
                    b.extend_from_slice(&e.bytes[..k]);
                }
            }
            "tail"
        }
        13 => {
            if !b.is_empty() {
                let k = r.range(1, 4);
                for _ in 0..k {
                    let i = r.usize_below(b.len());
                    match r.below(6) {
                        0 | 1 => b[i] ^= 1 << r.below(8),
                        2 => b[i] = 0,
                        3 => b[i] = 0xFF,
                        4 => b[i] = r.u8(),
                        _ => {
                            let v = r.u8();
                            b.insert(i, v)
                        }
                    }
                }
            }
            "blind"
        }
        14 => {
            if light {
                b.extend(std::iter::repeat(b'A').take(40));
            } else {
                // > 64 KiB of readable bytes behind the message
                let n = 66_000 + r.usize_below(140_000);
                match r.below(3) {
                    0 => b.extend(std::iter::repeat(b'A').take(n)),
                    1 => b.extend(std::iter::repeat(0u8).take(n)),
                    _ => {
                        let t = r.bytes(n);
                        b.extend(t)
                    }
                }
            }
            "big_tail"
        }
        _ => {
            // plant the storage pattern inside the message
            if b.len() >= 4 {
                let i = r.usize_below(b.len() - 3);
                b[i..i + 4].copy_from_slice(&[0x44, 0x4C, 0x54, 0x01]);
            }
            "pattern_inside"
        }
    }
}

/// a mutant of a valid encoding: 1-3 operators
pub fn mutant(r: &mut Rng, e: &Encoded, light: bool) -> (Vec<u8>, Vec<&'static str>) {
    let mut b = e.bytes.clone();
    let k = match r.below(10) {
        0..=5 => 1,
        6..=8 => 2,
        _ => 3,
    };
    let mut ops = vec![];
    for _ in 0..k {
        ops.push(mutate_once(r, e, &mut b, light));
    }
    (b, ops)
}

/// the classic "length 0xFFFF + a big readable buffer" attack on 16-bit length prefixes
pub fn long_field_attack(r: &mut Rng, e: &Encoded, light: bool) -> Option<Vec<u8>> {
    let f = pick_field(r, e, &["arg.strlen", "arg.rawlen", "arg.namelen", "arg.unitlen"])?;
    let be_payload = e.bytes[e.std_start] & 2 != 0;
    let mut b = e.bytes.clone();
    write_int(&mut b, f, if r.chance(3, 4) { 0xFFFF } else { 0xFFFE }, be_payload);
    let n = if light { 300 } else { 66_000 + r.usize_below(8_000) };
    let fill = *r.pick(&[b'A', b'z', 0xC3, 0x80]);
    if r.chance(2, 3) {
        // no terminator anywhere behind the prefix: the field really extends over 64 KiB
        for x in b[f.end..].iter_mut() {
            if *x == 0 {
                *x = fill;
            }
        }
    }
    b.extend(std::iter::repeat(fill).take(n));
    if r.chance(1, 2) {
        // also make the declared message length as large as possible
        if let Some(l) = e.find("std.len") {
            write_int(&mut b, l, 0xFFFF, true);
        }
    }
    Some(b)
}
