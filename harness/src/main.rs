//! dltmon: runtime monitors for the dlt-core properties C01..C19.
//!
//!   dltmon run <PROP> --seed S --tier quick|thorough --engine E --shard I --nshards N
//!              --start A --ops K --out DIR [--logger 0|1]
//!   dltmon replay <PROP> --seed S --tier T --engine E --index I      (exit 1 when the oracle fires)
//!   dltmon oob-selftest <heap|stack>                                   (sanitizer liveness probe)
//!
//! A shard runs the case indices start+shard, start+shard+nshards, ... < start+ops. Every case
//! is a pure function of (seed, property, index, tier, engine), so any case can be replayed.

#![allow(dead_code)]

mod ctx;
mod fibexgen;
mod filtergen;
mod gen_msg;
mod inputs;
mod iosched;
mod json;
mod mon;
mod mutate;
mod refcodec;
mod rng;

use ctx::{Ctx, Engine, Tier};
use std::collections::HashMap;

fn usage() -> ! {
    eprintln!("usage: dltmon run|replay <PROP> [--seed S --tier T --engine E --shard I --nshards N --start A --ops K --out DIR --logger 0|1 --index I]");
    std::process::exit(2)
}

fn main() {
    let args: Vec<String> = std::env::args().collect();
    if args.len() < 3 {
        usage();
    }
    let cmd = args[1].as_str();
    if cmd == "oob-selftest" {
        oob_selftest(&args[2]);
        return;
    }
    let prop = args[2].clone();
    let mut kv: HashMap<String, String> = HashMap::new();
    let mut i = 3;
    while i + 1 < args.len() {
        if let Some(k) = args[i].strip_prefix("--") {
            kv.insert(k.to_string(), args[i + 1].clone());
        }
        i += 2;
    }
    let num = |k: &str, d: u64| -> u64 { kv.get(k).map(|v| v.parse().unwrap_or(d)).unwrap_or(d) };
    let seed = num("seed", 1);
    let tier = match kv.get("tier").map(|s| s.as_str()) {
        Some("thorough") => Tier::Thorough,
        _ => Tier::Quick,
    };
    let engine = kv
        .get("engine")
        .and_then(|s| Engine::parse(s))
        .unwrap_or(Engine::Checked);
    let shard = num("shard", 0);
    let nshards = num("nshards", 1).max(1);
    let start = num("start", 0);
    let ops = num("ops", 1000);
    let out = kv.get("out").cloned();
    let logger = num("logger", 0) != 0;

    ctx::install_panic_hook();
    if logger {
        ctx::install_logger();
    }

    let prop_static: &'static str = Box::leak(prop.clone().into_boxed_str());
    let mut monitor = match mon::create(&prop) {
        Some(m) => m,
        None => {
            eprintln!("unknown property {}", prop);
            std::process::exit(2);
        }
    };

    match cmd {
        "run" => {
            let t0 = std::time::Instant::now();
            let mut c = Ctx::new(prop_static, seed, tier, engine, shard, nshards, out.clone());
            c.logger_on = logger;
            // interpreters and valgrind are orders of magnitude slower: their bound is only a backstop
            let bound = match engine {
                Engine::Miri | Engine::Memcheck => 3600.0,
                Engine::Asan => 180.0,
                _ => 60.0,
            };
            // C11 loads at most a handful of files per case (each delivers end-of-file once or twice)
            let eof_bound = if prop_static == "C11" { Some(400) } else { None };
            ctx::start_progress_watchdog(prop_static, seed, engine, shard, out, bound, eof_bound);
            let mut idx = start + shard;
            while idx < start + ops {
                c.begin_case(idx);
                monitor.case(&mut c);
                idx += nshards;
            }
            monitor.finish(&mut c);
            c.mark_done();
            if logger {
                use std::sync::atomic::Ordering::Relaxed;
                c.obs_n("logger.records_formatted", ctx::LOG_RECORDS.load(Relaxed));
                c.obs_n("logger.bytes_formatted", ctx::LOG_BYTES.load(Relaxed));
            }
            let d = monitor.describe(&c);
            let wall = t0.elapsed().as_secs_f64();
            if let Err(e) = c.write_summary(start, ops, wall, d) {
                eprintln!("cannot write summary: {}", e);
                std::process::exit(3);
            }
            // the driver decides the verdict from the summaries; exit code only signals harness health
            std::process::exit(if c.has_harness_errors() { 3 } else { 0 });
        }
        "replay" => {
            let index = num("index", 0);
            let mut c = Ctx::new(prop_static, seed, tier, engine, 0, 1, None);
            c.replaying = true;
            ctx::start_progress_watchdog(
                prop_static,
                seed,
                engine,
                0,
                None,
                match engine {
                    Engine::Miri | Engine::Memcheck => 3600.0,
                    Engine::Asan => 180.0,
                    _ => 60.0,
                },
                if prop_static == "C11" { Some(400) } else { None },
            );
            c.logger_on = logger;
            println!("replaying {} seed={} tier={:?} engine={} index={}", prop, seed, tier, engine.name(), index);
            c.begin_case(index);
            monitor.case(&mut c);
            monitor.finish(&mut c);
            if c.has_harness_errors() {
                println!("replay: harness error");
                std::process::exit(3);
            }
            if c.violation_count() > 0 {
                println!("replay: {} violation signature(s) reproduced", c.violation_count());
                std::process::exit(1);
            }
            println!("replay: oracle silent on this case");
            std::process::exit(0);
        }
        _ => usage(),
    }
}

/// Deliberate out-of-bounds read used once per sanitizer engine at setup to prove that the
/// engine reports (DESIGN.md §7.3). Never reached by any check.
fn oob_selftest(kind: &str) {
    let n: usize = std::env::args().count(); // opaque to the optimiser
    match kind {
        "heap" => {
            let v: Vec<u8> = vec![1u8; 16 + n];
            let p = v.as_ptr();
            let x = unsafe { std::ptr::read_volatile(p.add(v.len() + 3)) };
            println!("read {}", x);
        }
        _ => {
            let a = [1u8; 16];
            let p = a.as_ptr();
            let x = unsafe { std::ptr::read_volatile(p.add(16 + 40 + n)) };
            println!("read {}", x);
        }
    }
}
