//! Independent reference codec for the AUTOSAR DLT layout (DESIGN.md §4.2).
//!
//! Written from the layout description in property C02: no nom, no byteorder, no bytes,
//! no function or constant of the crate. The crate's public *data types* (`Message`,
//! `Argument`, ...) are used as plain containers for decoded values; every mapping between
//! bits and enum variants below is this module's own table.

use dlt_core::dlt::*;

// ------------------------------------------------------------------ tables

/// MSIN bits 1..7 (MSTP b1-3, MTIN b4-7) for a message type; bit 0 (verbose) is not included
pub fn msin_bits(mt: &MessageType) -> u8 {
    let (mstp, mtin): (u8, u8) = match mt {
        MessageType::Log(l) => (
            0,
            match l {
                LogLevel::Fatal => 1,
                LogLevel::Error => 2,
                LogLevel::Warn => 3,
                LogLevel::Info => 4,
                LogLevel::Debug => 5,
                LogLevel::Verbose => 6,
                LogLevel::Invalid(n) => *n,
            },
        ),
        MessageType::ApplicationTrace(t) => (
            1,
            match t {
                ApplicationTraceType::Variable => 1,
                ApplicationTraceType::FunctionIn => 2,
                ApplicationTraceType::FunctionOut => 3,
                ApplicationTraceType::State => 4,
                ApplicationTraceType::Vfb => 5,
                ApplicationTraceType::Invalid(n) => *n,
            },
        ),
        MessageType::NetworkTrace(t) => (
            2,
            match t {
                NetworkTraceType::Invalid => 0,
                NetworkTraceType::Ipc => 1,
                NetworkTraceType::Can => 2,
                NetworkTraceType::Flexray => 3,
                NetworkTraceType::Most => 4,
                NetworkTraceType::Ethernet => 5,
                NetworkTraceType::Someip => 6,
                NetworkTraceType::UserDefined(n) => *n,
            },
        ),
        MessageType::Control(t) => (
            3,
            match t {
                ControlType::Request => 1,
                ControlType::Response => 2,
                ControlType::Unknown(n) => *n,
            },
        ),
        MessageType::Unknown((mstp, mtin)) => (*mstp, *mtin),
    };
    ((mstp & 7) << 1) | ((mtin & 15) << 4)
}

/// the message type a MSIN byte denotes (canonical variants only)
pub fn mtype_of(msin: u8) -> MessageType {
    let t = msin >> 4;
    match (msin >> 1) & 7 {
        0 => MessageType::Log(match t {
            1 => LogLevel::Fatal,
            2 => LogLevel::Error,
            3 => LogLevel::Warn,
            4 => LogLevel::Info,
            5 => LogLevel::Debug,
            6 => LogLevel::Verbose,
            x => LogLevel::Invalid(x),
        }),
        1 => MessageType::ApplicationTrace(match t {
            1 => ApplicationTraceType::Variable,
            2 => ApplicationTraceType::FunctionIn,
            3 => ApplicationTraceType::FunctionOut,
            4 => ApplicationTraceType::State,
            5 => ApplicationTraceType::Vfb,
            x => ApplicationTraceType::Invalid(x),
        }),
        2 => MessageType::NetworkTrace(match t {
            0 => NetworkTraceType::Invalid,
            1 => NetworkTraceType::Ipc,
            2 => NetworkTraceType::Can,
            3 => NetworkTraceType::Flexray,
            4 => NetworkTraceType::Most,
            5 => NetworkTraceType::Ethernet,
            6 => NetworkTraceType::Someip,
            x => NetworkTraceType::UserDefined(x),
        }),
        3 => MessageType::Control(match t {
            1 => ControlType::Request,
            2 => ControlType::Response,
            x => ControlType::Unknown(x),
        }),
        m => MessageType::Unknown((m, t)),
    }
}

pub fn service_id_of(b: u8) -> ControlType {
    match b {
        1 => ControlType::Request,
        2 => ControlType::Response,
        x => ControlType::Unknown(x),
    }
}
pub fn service_id_byte(c: &ControlType) -> u8 {
    match c {
        ControlType::Request => 1,
        ControlType::Response => 2,
        ControlType::Unknown(x) => *x,
    }
}

pub const TI_BOOL: u32 = 1 << 4;
pub const TI_SINT: u32 = 1 << 5;
pub const TI_UINT: u32 = 1 << 6;
pub const TI_FLOA: u32 = 1 << 7;
pub const TI_ARAY: u32 = 1 << 8;
pub const TI_STRG: u32 = 1 << 9;
pub const TI_RAWD: u32 = 1 << 10;
pub const TI_VARI: u32 = 1 << 11;
pub const TI_FIXP: u32 = 1 << 12;
pub const TI_TRAI: u32 = 1 << 13;
pub const TI_STRU: u32 = 1 << 14;
pub const TI_SCOD_SHIFT: u32 = 15;

fn tyle_of_len(l: TypeLength) -> u32 {
    match l {
        TypeLength::BitLength8 => 1,
        TypeLength::BitLength16 => 2,
        TypeLength::BitLength32 => 3,
        TypeLength::BitLength64 => 4,
        TypeLength::BitLength128 => 5,
    }
}
fn tyle_of_fw(w: FloatWidth) -> u32 {
    match w {
        FloatWidth::Width32 => 3,
        FloatWidth::Width64 => 4,
    }
}
fn len_of_tyle(t: u32) -> Option<TypeLength> {
    Some(match t {
        1 => TypeLength::BitLength8,
        2 => TypeLength::BitLength16,
        3 => TypeLength::BitLength32,
        4 => TypeLength::BitLength64,
        5 => TypeLength::BitLength128,
        _ => return None,
    })
}
fn fw_of_tyle(t: u32) -> Option<FloatWidth> {
    Some(match t {
        3 => FloatWidth::Width32,
        4 => FloatWidth::Width64,
        _ => return None,
    })
}

/// canonical 32-bit type-info word of a description
pub fn tyinfo_word(ti: &TypeInfo) -> u32 {
    let mut w = match ti.kind {
        TypeInfoKind::Bool => TI_BOOL,
        TypeInfoKind::Signed(l) => TI_SINT | tyle_of_len(l),
        TypeInfoKind::SignedFixedPoint(f) => TI_SINT | TI_FIXP | tyle_of_fw(f),
        TypeInfoKind::Unsigned(l) => TI_UINT | tyle_of_len(l),
        TypeInfoKind::UnsignedFixedPoint(f) => TI_UINT | TI_FIXP | tyle_of_fw(f),
        TypeInfoKind::Float(f) => TI_FLOA | tyle_of_fw(f),
        TypeInfoKind::StringType => TI_STRG,
        TypeInfoKind::Raw => TI_RAWD,
    };
    if ti.has_variable_info {
        w |= TI_VARI;
    }
    if ti.has_trace_info {
        w |= TI_TRAI;
    }
    w |= match ti.coding {
        StringCoding::ASCII => 0,
        StringCoding::UTF8 => 1,
        StringCoding::Reserved(v) => (v & 7) as u32,
    } << TI_SCOD_SHIFT;
    w
}

/// acceptance rule + description for a type-info word (C14): bits 4-10 name exactly one of
/// bool/sint/uint/float/string/raw; sint/uint need TYLE 1-5 (3-4 with FIXP); float TYLE 3-4.
pub fn tyinfo_of(w: u32) -> Option<TypeInfo> {
    let tyle = w & 0xf;
    let fixp = w & TI_FIXP != 0;
    let kind = match (w >> 4) & 0x7f {
        0x01 => TypeInfoKind::Bool,
        0x02 => {
            if fixp {
                TypeInfoKind::SignedFixedPoint(fw_of_tyle(tyle)?)
            } else {
                TypeInfoKind::Signed(len_of_tyle(tyle)?)
            }
        }
        0x04 => {
            if fixp {
                TypeInfoKind::UnsignedFixedPoint(fw_of_tyle(tyle)?)
            } else {
                TypeInfoKind::Unsigned(len_of_tyle(tyle)?)
            }
        }
        0x08 => TypeInfoKind::Float(fw_of_tyle(tyle)?),
        0x20 => TypeInfoKind::StringType,
        0x40 => TypeInfoKind::Raw,
        _ => return None,
    };
    let coding = match (w >> TI_SCOD_SHIFT) & 7 {
        0 => StringCoding::ASCII,
        1 => StringCoding::UTF8,
        v => StringCoding::Reserved(v as u8),
    };
    Some(TypeInfo {
        kind,
        coding,
        has_variable_info: w & TI_VARI != 0,
        has_trace_info: w & TI_TRAI != 0,
    })
}

/// the minimal set of bits the format defines for the kind a word names (C14 "used" mask)
pub fn tyinfo_used_mask(ti: &TypeInfo) -> u32 {
    let kind_bits = TI_BOOL | TI_SINT | TI_UINT | TI_FLOA | TI_ARAY | TI_STRG | TI_RAWD;
    match ti.kind {
        TypeInfoKind::Bool | TypeInfoKind::Raw => kind_bits | TI_VARI,
        TypeInfoKind::StringType => kind_bits | TI_VARI | (7 << TI_SCOD_SHIFT),
        TypeInfoKind::Float(_) => kind_bits | TI_VARI | 0xf,
        _ => kind_bits | TI_VARI | TI_FIXP | 0xf,
    }
}

// ------------------------------------------------------------------ UTF-8 / NUL rule (C19)

/// length of the longest valid UTF-8 prefix, naive scalar-by-scalar validator
pub fn utf8_prefix_len(b: &[u8]) -> usize {
    let mut i = 0;
    while i < b.len() {
        let c = b[i];
        let l = if c < 0x80 {
            1
        } else if (0xC2..=0xDF).contains(&c) {
            2
        } else if (0xE0..=0xEF).contains(&c) {
            3
        } else if (0xF0..=0xF4).contains(&c) {
            4
        } else {
            break;
        };
        if i + l > b.len() {
            break;
        }
        let cont = |x: u8| x & 0xC0 == 0x80;
        let ok = match l {
            1 => true,
            2 => cont(b[i + 1]),
            3 => {
                let (x, y) = (b[i + 1], b[i + 2]);
                cont(y)
                    && match c {
                        0xE0 => (0xA0..=0xBF).contains(&x),
                        0xED => (0x80..=0x9F).contains(&x),
                        _ => cont(x),
                    }
            }
            _ => {
                let (x, y, z) = (b[i + 1], b[i + 2], b[i + 3]);
                cont(y)
                    && cont(z)
                    && match c {
                        0xF0 => (0x90..=0xBF).contains(&x),
                        0xF4 => (0x80..=0x8F).contains(&x),
                        _ => cont(x),
                    }
            }
        };
        if !ok {
            break;
        }
        i += l;
    }
    i
}

/// value of a fixed-size NUL-terminated field: bytes before the first NUL, cut to the longest
/// valid UTF-8 prefix
pub fn field_value(field: &[u8]) -> &[u8] {
    let cut = field.iter().position(|&x| x == 0).unwrap_or(field.len());
    let f = &field[..cut];
    &f[..utf8_prefix_len(f)]
}
fn field_string(field: &[u8]) -> String {
    // field_value is valid UTF-8 by construction; lossy never substitutes here
    String::from_utf8_lossy(field_value(field)).into_owned()
}

// ------------------------------------------------------------------ encoder

#[derive(Clone, Debug)]
pub struct Field {
    pub label: &'static str,
    /// argument index for payload fields
    pub arg: Option<u16>,
    pub start: usize,
    pub end: usize,
}

#[derive(Clone, Debug, Default)]
pub struct Encoded {
    pub bytes: Vec<u8>,
    pub fields: Vec<Field>,
    /// offset of the standard header (16 with storage header, else 0)
    pub std_start: usize,
    /// offset of the first payload byte
    pub payload_start: usize,
}

impl Encoded {
    pub fn label_at(&self, off: usize) -> &'static str {
        for f in &self.fields {
            if off >= f.start && off < f.end {
                return f.label;
            }
        }
        "none"
    }
    pub fn find(&self, label: &str) -> Option<&Field> {
        self.fields.iter().find(|f| f.label == label)
    }
    pub fn find_all(&self, label: &str) -> Vec<&Field> {
        self.fields.iter().filter(|f| f.label == label).collect()
    }
}

struct W {
    e: Encoded,
    be: bool,
    arg: Option<u16>,
}
impl W {
    fn put(&mut self, label: &'static str, b: &[u8]) {
        let start = self.e.bytes.len();
        self.e.bytes.extend_from_slice(b);
        self.e.fields.push(Field {
            label,
            arg: self.arg,
            start,
            end: start + b.len(),
        });
    }
    /// integer of `n` bytes in payload byte order
    fn int(&mut self, label: &'static str, v: u128, n: usize) {
        let le = v.to_le_bytes();
        let mut b: Vec<u8> = le[..n].to_vec();
        if self.be {
            b.reverse();
        }
        self.put(label, &b);
    }
    fn id4(&mut self, label: &'static str, s: &str) {
        let mut b = s.as_bytes().to_vec();
        while b.len() < 4 {
            b.push(0);
        }
        self.put(label, &b);
    }
    fn cstr(&mut self, label: &'static str, s: &str) {
        let mut b = s.as_bytes().to_vec();
        b.push(0);
        self.put(label, &b);
    }
}

pub fn headers_len(htyp: u8) -> usize {
    4 + if htyp & 4 != 0 { 4 } else { 0 }
        + if htyp & 8 != 0 { 4 } else { 0 }
        + if htyp & 16 != 0 { 4 } else { 0 }
        + if htyp & 1 != 0 { 10 } else { 0 }
}

pub fn htyp_of(h: &StandardHeader) -> u8 {
    (h.has_extended_header as u8)
        | ((h.endianness == Endianness::Big) as u8) << 1
        | (h.ecu_id.is_some() as u8) << 2
        | (h.session_id.is_some() as u8) << 3
        | (h.timestamp.is_some() as u8) << 4
        | (h.version & 7) << 5
}

pub fn encode_argument(w: &mut Vec<u8>, a: &Argument, be: bool) {
    let mut ww = W {
        e: Encoded::default(),
        be,
        arg: None,
    };
    enc_arg(&mut ww, a);
    w.extend_from_slice(&ww.e.bytes);
}

fn enc_arg(w: &mut W, a: &Argument) {
    let word = tyinfo_word(&a.type_info);
    w.int("arg.typeinfo", word as u128, 4);
    let vari = a.type_info.has_variable_info;
    let name = a.name.as_deref().unwrap_or("");
    let unit = a.unit.as_deref().unwrap_or("");
    match a.type_info.kind {
        TypeInfoKind::Bool => {
            if vari {
                w.int("arg.namelen", name.len() as u128 + 1, 2);
                w.cstr("arg.name", name);
            }
            let v = if let Value::Bool(b) = a.value { b } else { 0 };
            w.put("arg.value", &[v]);
        }
        TypeInfoKind::StringType => {
            let s = if let Value::StringVal(s) = &a.value { &s[..] } else { "" };
            w.int("arg.strlen", s.len() as u128 + 1, 2);
            if vari {
                w.int("arg.namelen", name.len() as u128 + 1, 2);
                w.cstr("arg.name", name);
            }
            w.cstr("arg.value", s);
        }
        TypeInfoKind::Raw => {
            let empty = vec![];
            let d = if let Value::Raw(d) = &a.value { d } else { &empty };
            w.int("arg.rawlen", d.len() as u128, 2);
            if vari {
                w.int("arg.namelen", name.len() as u128 + 1, 2);
                w.cstr("arg.name", name);
            }
            w.put("arg.value", d);
        }
        _ => {
            if vari {
                w.int("arg.namelen", name.len() as u128 + 1, 2);
                w.int("arg.unitlen", unit.len() as u128 + 1, 2);
                w.cstr("arg.name", name);
                w.cstr("arg.unit", unit);
            }
            if let Some(fp) = &a.fixed_point {
                w.int("arg.quant", fp.quantization.to_bits() as u128, 4);
                match fp.offset {
                    FixedPointValue::I32(v) => w.int("arg.offset", v as u32 as u128, 4),
                    FixedPointValue::I64(v) => w.int("arg.offset", v as u64 as u128, 8),
                }
            }
            match a.value {
                Value::U8(v) => w.int("arg.value", v as u128, 1),
                Value::U16(v) => w.int("arg.value", v as u128, 2),
                Value::U32(v) => w.int("arg.value", v as u128, 4),
                Value::U64(v) => w.int("arg.value", v as u128, 8),
                Value::U128(v) => w.int("arg.value", v, 16),
                Value::I8(v) => w.int("arg.value", v as u8 as u128, 1),
                Value::I16(v) => w.int("arg.value", v as u16 as u128, 2),
                Value::I32(v) => w.int("arg.value", v as u32 as u128, 4),
                Value::I64(v) => w.int("arg.value", v as u64 as u128, 8),
                Value::I128(v) => w.int("arg.value", v as u128, 16),
                Value::F32(v) => w.int("arg.value", v.to_bits() as u128, 4),
                Value::F64(v) => w.int("arg.value", v.to_bits() as u128, 8),
                _ => {}
            }
        }
    }
}

/// Encode a well-formed message into the DLT layout. LEN is computed from the encoded size.
pub fn ref_encode(m: &Message) -> Encoded {
    let be = m.header.endianness == Endianness::Big;
    let mut w = W {
        e: Encoded::default(),
        be,
        arg: None,
    };
    if let Some(sh) = &m.storage_header {
        w.put("storage.pattern", &[0x44, 0x4C, 0x54, 0x01]);
        w.put("storage.secs", &sh.timestamp.seconds.to_le_bytes());
        w.put("storage.usecs", &sh.timestamp.microseconds.to_le_bytes());
        w.id4("storage.ecu", &sh.ecu_id);
    }
    w.e.std_start = w.e.bytes.len();
    let htyp = htyp_of(&m.header);
    w.put("std.htyp", &[htyp]);
    w.put("std.mcnt", &[m.header.message_counter]);
    w.put("std.len", &[0, 0]); // patched below
    if let Some(e) = &m.header.ecu_id {
        w.id4("std.ecu", e);
    }
    if let Some(s) = m.header.session_id {
        w.put("std.sid", &s.to_be_bytes());
    }
    if let Some(t) = m.header.timestamp {
        w.put("std.tms", &t.to_be_bytes());
    }
    if let Some(x) = &m.extended_header {
        w.put("ext.msin", &[msin_bits(&x.message_type) | x.verbose as u8]);
        w.put("ext.noar", &[x.argument_count]);
        w.id4("ext.apid", &x.application_id);
        w.id4("ext.ctid", &x.context_id);
    }
    w.e.payload_start = w.e.bytes.len();
    match &m.payload {
        PayloadContent::Verbose(args) => {
            for (i, a) in args.iter().enumerate() {
                w.arg = Some(i as u16);
                enc_arg(&mut w, a);
            }
            w.arg = None;
        }
        PayloadContent::NonVerbose(id, data) => {
            w.int("nv.msgid", *id as u128, 4);
            w.put("nv.data", data);
        }
        PayloadContent::ControlMsg(c, data) => {
            w.put("ctrl.id", &[service_id_byte(c)]);
            w.put("ctrl.data", data);
        }
        PayloadContent::NetworkTrace(slices) => {
            for (i, s) in slices.iter().enumerate() {
                w.arg = Some(i as u16);
                w.int("arg.typeinfo", TI_RAWD as u128, 4);
                w.int("arg.rawlen", s.len() as u128, 2);
                w.put("arg.value", s);
            }
            w.arg = None;
        }
    }
    let total = w.e.bytes.len() - w.e.std_start;
    let s = w.e.std_start;
    // a length that does not fit is the caller's problem (well-formedness); truncate like a u16 field would
    w.e.bytes[s + 2] = (total >> 8) as u8;
    w.e.bytes[s + 3] = total as u8;
    w.e
}

// ------------------------------------------------------------------ decoder

#[derive(Debug, Clone)]
pub enum Verdict {
    /// decoded message and number of input bytes consumed (including skipped junk)
    Msg(Box<Message>, usize),
    Incomplete,
    Reject,
}

struct Cur<'a> {
    p: &'a [u8],
    be: bool,
}
impl<'a> Cur<'a> {
    fn take(&mut self, n: usize) -> Option<&'a [u8]> {
        if self.p.len() < n {
            None
        } else {
            let (a, b) = self.p.split_at(n);
            self.p = b;
            Some(a)
        }
    }
    fn u(&mut self, n: usize) -> Option<u128> {
        let s = self.take(n)?;
        let mut v = 0u128;
        if self.be {
            for x in s {
                v = v << 8 | *x as u128;
            }
        } else {
            for x in s.iter().rev() {
                v = v << 8 | *x as u128;
            }
        }
        Some(v)
    }
}

fn dec_arg(c: &mut Cur) -> Option<Argument> {
    let w = c.u(4)? as u32;
    let ti = tyinfo_of(w)?;
    let vari = ti.has_variable_info;
    let (mut name, mut unit, mut fp) = (None, None, None);
    let value = match ti.kind.clone() {
        TypeInfoKind::Bool => {
            if vari {
                let n = c.u(2)? as usize;
                name = Some(field_string(c.take(n)?));
            }
            Value::Bool(c.u(1)? as u8)
        }
        TypeInfoKind::StringType => {
            let l = c.u(2)? as usize;
            if vari {
                let n = c.u(2)? as usize;
                name = Some(field_string(c.take(n)?));
            }
            Value::StringVal(field_string(c.take(l)?))
        }
        TypeInfoKind::Raw => {
            let l = c.u(2)? as usize;
            if vari {
                let n = c.u(2)? as usize;
                name = Some(field_string(c.take(n)?));
            }
            Value::Raw(c.take(l)?.to_vec())
        }
        num => {
            if vari {
                let n = c.u(2)? as usize;
                let u = c.u(2)? as usize;
                name = Some(field_string(c.take(n)?));
                unit = Some(field_string(c.take(u)?));
            }
            if let TypeInfoKind::SignedFixedPoint(w) | TypeInfoKind::UnsignedFixedPoint(w) = num {
                let q = f32::from_bits(c.u(4)? as u32);
                let off = match w {
                    FloatWidth::Width32 => FixedPointValue::I32(c.u(4)? as u32 as i32),
                    FloatWidth::Width64 => FixedPointValue::I64(c.u(8)? as u64 as i64),
                };
                fp = Some(FixedPoint {
                    quantization: q,
                    offset: off,
                });
            }
            use FloatWidth::*;
            use TypeLength::*;
            match num {
                TypeInfoKind::Signed(BitLength8) => Value::I8(c.u(1)? as u8 as i8),
                TypeInfoKind::Signed(BitLength16) => Value::I16(c.u(2)? as u16 as i16),
                TypeInfoKind::Signed(BitLength32) | TypeInfoKind::SignedFixedPoint(Width32) => {
                    Value::I32(c.u(4)? as u32 as i32)
                }
                TypeInfoKind::Signed(BitLength64) | TypeInfoKind::SignedFixedPoint(Width64) => {
                    Value::I64(c.u(8)? as u64 as i64)
                }
                TypeInfoKind::Signed(BitLength128) => Value::I128(c.u(16)? as i128),
                TypeInfoKind::Unsigned(BitLength8) => Value::U8(c.u(1)? as u8),
                TypeInfoKind::Unsigned(BitLength16) => Value::U16(c.u(2)? as u16),
                TypeInfoKind::Unsigned(BitLength32) | TypeInfoKind::UnsignedFixedPoint(Width32) => {
                    Value::U32(c.u(4)? as u32)
                }
                TypeInfoKind::Unsigned(BitLength64) | TypeInfoKind::UnsignedFixedPoint(Width64) => {
                    Value::U64(c.u(8)? as u64)
                }
                TypeInfoKind::Unsigned(BitLength128) => Value::U128(c.u(16)?),
                TypeInfoKind::Float(Width32) => Value::F32(f32::from_bits(c.u(4)? as u32)),
                TypeInfoKind::Float(Width64) => Value::F64(f64::from_bits(c.u(8)? as u64)),
                _ => return None,
            }
        }
    };
    Some(Argument {
        type_info: ti,
        name,
        unit,
        fixed_point: fp,
        value,
    })
}

pub fn find_pattern(b: &[u8]) -> Option<usize> {
    if b.len() < 4 {
        return None;
    }
    (0..=b.len() - 4).find(|&i| b[i] == 0x44 && b[i + 1] == 0x4C && b[i + 2] == 0x54 && b[i + 3] == 0x01)
}

/// Reference verdict set for `bytes` (rules 1-7 of DESIGN.md §4.2). The set has more than one
/// element only where the statement of C02 leaves the order of two checks open.
pub fn ref_decode(b: &[u8], with_storage: bool) -> Vec<Verdict> {
    let (s, storage) = if with_storage {
        if b.len() < 16 {
            return vec![Verdict::Incomplete];
        }
        let p = match find_pattern(b) {
            Some(p) => p,
            None => return vec![Verdict::Incomplete],
        };
        if b.len() - p < 16 {
            return vec![Verdict::Incomplete];
        }
        let secs = u32::from_le_bytes([b[p + 4], b[p + 5], b[p + 6], b[p + 7]]);
        let usecs = u32::from_le_bytes([b[p + 8], b[p + 9], b[p + 10], b[p + 11]]);
        (
            p + 16,
            Some(StorageHeader {
                timestamp: DltTimeStamp {
                    seconds: secs,
                    microseconds: usecs,
                },
                ecu_id: field_string(&b[p + 12..p + 16]),
            }),
        )
    } else {
        (0, None)
    };
    let a = &b[s..];
    if a.len() < 4 {
        return vec![Verdict::Incomplete];
    }
    let htyp = a[0];
    let len = u16::from_be_bytes([a[2], a[3]]) as usize;
    let (ueh, msbf, weid, wsid, wtms) = (
        htyp & 1 != 0,
        htyp & 2 != 0,
        htyp & 4 != 0,
        htyp & 8 != 0,
        htyp & 16 != 0,
    );
    let all_len = headers_len(htyp);
    let too_small = len < all_len;
    if a.len() < all_len || a.len() < len {
        return if too_small {
            vec![Verdict::Incomplete, Verdict::Reject]
        } else {
            vec![Verdict::Incomplete]
        };
    }
    if too_small {
        return vec![Verdict::Reject];
    }
    let mut o = 4;
    let ecu = if weid {
        o += 4;
        Some(field_string(&a[o - 4..o]))
    } else {
        None
    };
    let sid = if wsid {
        o += 4;
        Some(u32::from_be_bytes([a[o - 4], a[o - 3], a[o - 2], a[o - 1]]))
    } else {
        None
    };
    let tms = if wtms {
        o += 4;
        Some(u32::from_be_bytes([a[o - 4], a[o - 3], a[o - 2], a[o - 1]]))
    } else {
        None
    };
    let ext = if ueh {
        let e = &a[o..o + 10];
        o += 10;
        Some(ExtendedHeader {
            verbose: e[0] & 1 != 0,
            argument_count: e[1],
            message_type: mtype_of(e[0]),
            application_id: field_string(&e[2..6]),
            context_id: field_string(&e[6..10]),
        })
    } else {
        None
    };
    let pl = &a[o..len];
    let header = StandardHeader {
        version: htyp >> 5,
        endianness: if msbf { Endianness::Big } else { Endianness::Little },
        has_extended_header: ueh,
        message_counter: a[1],
        ecu_id: ecu,
        session_id: sid,
        timestamp: tms,
        payload_length: (len - all_len) as u16,
    };
    let mut c = Cur { p: pl, be: msbf };
    let payload = match &ext {
        Some(e) if e.verbose => {
            let mut args = vec![];
            for _ in 0..e.argument_count {
                match dec_arg(&mut c) {
                    Some(x) => args.push(x),
                    None => return vec![Verdict::Reject],
                }
            }
            if let MessageType::NetworkTrace(_) = e.message_type {
                PayloadContent::NetworkTrace(
                    args.into_iter()
                        .filter_map(|x| if let Value::Raw(v) = x.value { Some(v) } else { None })
                        .collect(),
                )
            } else {
                PayloadContent::Verbose(args)
            }
        }
        Some(ExtendedHeader {
            message_type: MessageType::Control(_),
            ..
        }) => {
            if pl.is_empty() {
                return vec![Verdict::Reject];
            }
            PayloadContent::ControlMsg(service_id_of(pl[0]), pl[1..].to_vec())
        }
        _ => {
            if pl.len() < 4 {
                return vec![Verdict::Reject];
            }
            let id = c.u(4).unwrap_or(0) as u32;
            PayloadContent::NonVerbose(id, pl[4..].to_vec())
        }
    };
    vec![Verdict::Msg(
        Box::new(Message {
            storage_header: storage,
            header,
            extended_header: ext,
            payload,
        }),
        s + len,
    )]
}

// ------------------------------------------------------------------ bit-exact comparison

fn val_bits(v: &Value) -> String {
    match v {
        Value::F32(f) => format!("F32#{:08x}", f.to_bits()),
        Value::F64(f) => format!("F64#{:016x}", f.to_bits()),
        o => format!("{:?}", o),
    }
}

fn norm_ti(t: &TypeInfo, modulo_unused: bool) -> TypeInfo {
    let mut t = t.clone();
    if modulo_unused && !matches!(t.kind, TypeInfoKind::StringType) {
        t.coding = StringCoding::ASCII;
    }
    t
}

pub fn diff_arg(a: &Argument, b: &Argument, modulo_unused: bool) -> Option<&'static str> {
    if format!("{:?}", norm_ti(&a.type_info, modulo_unused)) != format!("{:?}", norm_ti(&b.type_info, modulo_unused)) {
        return Some("type_info");
    }
    if a.name != b.name {
        return Some("name");
    }
    if a.unit != b.unit {
        return Some("unit");
    }
    match (&a.fixed_point, &b.fixed_point) {
        (None, None) => {}
        (Some(x), Some(y)) => {
            if x.quantization.to_bits() != y.quantization.to_bits() {
                return Some("fixed_point.quantization");
            }
            if format!("{:?}", x.offset) != format!("{:?}", y.offset) {
                return Some("fixed_point.offset");
            }
        }
        _ => return Some("fixed_point"),
    }
    if val_bits(&a.value) != val_bits(&b.value) {
        return Some("value");
    }
    None
}

/// first differing field between two messages, floats compared by bit pattern
pub fn diff_msg(a: &Message, b: &Message, modulo_unused: bool) -> Option<String> {
    match (&a.storage_header, &b.storage_header) {
        (None, None) => {}
        (Some(x), Some(y)) => {
            if x.timestamp.seconds != y.timestamp.seconds {
                return Some("storage.seconds".into());
            }
            if x.timestamp.microseconds != y.timestamp.microseconds {
                return Some("storage.microseconds".into());
            }
            if x.ecu_id != y.ecu_id {
                return Some("storage.ecu_id".into());
            }
        }
        _ => return Some("storage_header".into()),
    }
    let (h, g) = (&a.header, &b.header);
    if h.version != g.version {
        return Some("header.version".into());
    }
    // enum fields are compared through the harness' own projections (bit codes / Debug text), not
    // through the crate's PartialEq implementations
    if matches!(h.endianness, Endianness::Big) != matches!(g.endianness, Endianness::Big) {
        return Some("header.endianness".into());
    }
    if h.has_extended_header != g.has_extended_header {
        return Some("header.has_extended_header".into());
    }
    if h.message_counter != g.message_counter {
        return Some("header.message_counter".into());
    }
    if h.ecu_id != g.ecu_id {
        return Some("header.ecu_id".into());
    }
    if h.session_id != g.session_id {
        return Some("header.session_id".into());
    }
    if h.timestamp != g.timestamp {
        return Some("header.timestamp".into());
    }
    if h.payload_length != g.payload_length {
        return Some("header.payload_length".into());
    }
    match (&a.extended_header, &b.extended_header) {
        (None, None) => {}
        (Some(x), Some(y)) => {
            if x.verbose != y.verbose {
                return Some("ext.verbose".into());
            }
            if x.argument_count != y.argument_count {
                return Some("ext.argument_count".into());
            }
            if msin_bits(&x.message_type) != msin_bits(&y.message_type) || format!("{:?}", x.message_type) != format!("{:?}", y.message_type) {
                return Some("ext.message_type".into());
            }
            if x.application_id != y.application_id {
                return Some("ext.application_id".into());
            }
            if x.context_id != y.context_id {
                return Some("ext.context_id".into());
            }
        }
        _ => return Some("extended_header".into()),
    }
    match (&a.payload, &b.payload) {
        (PayloadContent::Verbose(x), PayloadContent::Verbose(y)) => {
            if x.len() != y.len() {
                return Some("payload.verbose.len".into());
            }
            for (p, q) in x.iter().zip(y) {
                if let Some(d) = diff_arg(p, q, modulo_unused) {
                    return Some(format!("payload.arg.{}", d));
                }
            }
            None
        }
        (PayloadContent::NonVerbose(i, x), PayloadContent::NonVerbose(j, y)) => {
            if i != j {
                Some("payload.nonverbose.id".into())
            } else if x != y {
                Some("payload.nonverbose.data".into())
            } else {
                None
            }
        }
        (PayloadContent::ControlMsg(i, x), PayloadContent::ControlMsg(j, y)) => {
            if i != j {
                Some("payload.control.id".into())
            } else if x != y {
                Some("payload.control.data".into())
            } else {
                None
            }
        }
        (PayloadContent::NetworkTrace(x), PayloadContent::NetworkTrace(y)) => {
            if x != y {
                Some("payload.networktrace".into())
            } else {
                None
            }
        }
        _ => Some("payload.kind".into()),
    }
}

pub fn payload_kind(p: &PayloadContent) -> &'static str {
    match p {
        PayloadContent::Verbose(_) => "verbose",
        PayloadContent::NonVerbose(..) => "nonverbose",
        PayloadContent::ControlMsg(..) => "control",
        PayloadContent::NetworkTrace(_) => "networktrace",
    }
}

pub fn kind_name(k: &TypeInfoKind) -> &'static str {
    use FloatWidth::*;
    use TypeLength::*;
    match k {
        TypeInfoKind::Bool => "bool",
        TypeInfoKind::Signed(BitLength8) => "i8",
        TypeInfoKind::Signed(BitLength16) => "i16",
        TypeInfoKind::Signed(BitLength32) => "i32",
        TypeInfoKind::Signed(BitLength64) => "i64",
        TypeInfoKind::Signed(BitLength128) => "i128",
        TypeInfoKind::Unsigned(BitLength8) => "u8",
        TypeInfoKind::Unsigned(BitLength16) => "u16",
        TypeInfoKind::Unsigned(BitLength32) => "u32",
        TypeInfoKind::Unsigned(BitLength64) => "u64",
        TypeInfoKind::Unsigned(BitLength128) => "u128",
        TypeInfoKind::SignedFixedPoint(Width32) => "fixi32",
        TypeInfoKind::SignedFixedPoint(Width64) => "fixi64",
        TypeInfoKind::UnsignedFixedPoint(Width32) => "fixu32",
        TypeInfoKind::UnsignedFixedPoint(Width64) => "fixu64",
        TypeInfoKind::Float(Width32) => "f32",
        TypeInfoKind::Float(Width64) => "f64",
        TypeInfoKind::StringType => "string",
        TypeInfoKind::Raw => "raw",
    }
}

/// short human-readable rendering of a message for replay/evidence files
pub fn show_msg(m: &Message) -> String {
    let mut s = format!(
        "storage={:?} header={:?} ext={:?} payload=",
        m.storage_header, m.header, m.extended_header
    );
    match &m.payload {
        PayloadContent::Verbose(args) => {
            s += &format!("Verbose[{}](", args.len());
            for a in args.iter().take(6) {
                s += &format!(
                    "{{{} w={:#x} name={:?} unit={:?} fp={:?} v={}}}",
                    kind_name(&a.type_info.kind),
                    tyinfo_word(&a.type_info),
                    a.name.as_ref().map(|x| crate::json::trunc(x, 24)),
                    a.unit.as_ref().map(|x| crate::json::trunc(x, 24)),
                    a.fixed_point
                        .as_ref()
                        .map(|f| (f.quantization.to_bits(), f.offset.clone())),
                    crate::json::trunc(&val_bits(&a.value), 60)
                );
            }
            if args.len() > 6 {
                s += "...";
            }
            s += ")";
        }
        PayloadContent::NonVerbose(id, d) => {
            s += &format!("NonVerbose({}, {})", id, crate::json::hex_trunc(d, 24))
        }
        PayloadContent::ControlMsg(c, d) => {
            s += &format!("Control({:?}, {})", c, crate::json::hex_trunc(d, 24))
        }
        PayloadContent::NetworkTrace(sl) => {
            s += &format!(
                "NetworkTrace[{}]({})",
                sl.len(),
                sl.iter()
                    .take(4)
                    .map(|x| crate::json::hex_trunc(x, 12))
                    .collect::<Vec<_>>()
                    .join(",")
            )
        }
    }
    crate::json::trunc(&s, 1500)
}
