//! Minimal JSON value + serializer (output only; the python driver does the reading).

use std::collections::BTreeMap;
use std::fmt::Write;

#[derive(Clone, Debug)]
pub enum J {
    Null,
    Bool(bool),
    Int(i128),
    Str(String),
    Arr(Vec<J>),
    Obj(Vec<(String, J)>),
}

impl J {
    pub fn obj() -> J {
        J::Obj(vec![])
    }
    pub fn set(mut self, k: &str, v: impl Into<J>) -> J {
        if let J::Obj(ref mut o) = self {
            o.push((k.to_string(), v.into()));
        }
        self
    }
    pub fn push_kv(&mut self, k: &str, v: impl Into<J>) {
        if let J::Obj(ref mut o) = self {
            o.push((k.to_string(), v.into()));
        }
    }
    pub fn to_string(&self) -> String {
        let mut s = String::new();
        self.write(&mut s);
        s
    }
    fn write(&self, out: &mut String) {
        match self {
            J::Null => out.push_str("null"),
            J::Bool(b) => out.push_str(if *b { "true" } else { "false" }),
            J::Int(i) => {
                let _ = write!(out, "{}", i);
            }
            J::Str(s) => write_str(out, s),
            J::Arr(a) => {
                out.push('[');
                for (i, x) in a.iter().enumerate() {
                    if i > 0 {
                        out.push(',');
                    }
                    x.write(out);
                }
                out.push(']');
            }
            J::Obj(o) => {
                out.push('{');
                for (i, (k, v)) in o.iter().enumerate() {
                    if i > 0 {
                        out.push(',');
                    }
                    write_str(out, k);
                    out.push(':');
                    v.write(out);
                }
                out.push('}');
            }
        }
    }
}

fn write_str(out: &mut String, s: &str) {
    out.push('"');
    for c in s.chars() {
        match c {
            '"' => out.push_str("\\\""),
            '\\' => out.push_str("\\\\"),
            '\n' => out.push_str("\\n"),
            '\r' => out.push_str("\\r"),
            '\t' => out.push_str("\\t"),
            c if (c as u32) < 0x20 || c == '\u{7f}' => {
                let _ = write!(out, "\\u{:04x}", c as u32);
            }
            c => out.push(c),
        }
    }
    out.push('"');
}

impl From<bool> for J {
    fn from(v: bool) -> J {
        J::Bool(v)
    }
}
impl From<&str> for J {
    fn from(v: &str) -> J {
        J::Str(v.to_string())
    }
}
impl From<String> for J {
    fn from(v: String) -> J {
        J::Str(v)
    }
}
impl From<&String> for J {
    fn from(v: &String) -> J {
        J::Str(v.clone())
    }
}
macro_rules! int_into_j {
    ($($t:ty),*) => { $( impl From<$t> for J { fn from(v: $t) -> J { J::Int(v as i128) } } )* };
}
int_into_j!(u8, u16, u32, u64, usize, i8, i16, i32, i64, isize, i128);
impl<T: Into<J>> From<Vec<T>> for J {
    fn from(v: Vec<T>) -> J {
        J::Arr(v.into_iter().map(Into::into).collect())
    }
}
impl<T: Into<J>> From<Option<T>> for J {
    fn from(v: Option<T>) -> J {
        match v {
            Some(x) => x.into(),
            None => J::Null,
        }
    }
}
impl From<&BTreeMap<String, u64>> for J {
    fn from(m: &BTreeMap<String, u64>) -> J {
        J::Obj(m.iter().map(|(k, v)| (k.clone(), J::Int(*v as i128))).collect())
    }
}

pub fn hex(b: &[u8]) -> String {
    let mut s = String::with_capacity(b.len() * 2);
    for x in b {
        let _ = write!(s, "{:02x}", x);
    }
    s
}

/// hex of at most `max` bytes, with a length note when truncated
pub fn hex_trunc(b: &[u8], max: usize) -> String {
    if b.len() <= max {
        hex(b)
    } else {
        format!("{}...(+{} bytes, {} total)", hex(&b[..max]), b.len() - max, b.len())
    }
}

pub fn unhex(s: &str) -> Option<Vec<u8>> {
    let s = s.as_bytes();
    if s.len() % 2 != 0 {
        return None;
    }
    let mut v = Vec::with_capacity(s.len() / 2);
    for c in s.chunks(2) {
        let h = (c[0] as char).to_digit(16)?;
        let l = (c[1] as char).to_digit(16)?;
        v.push((h * 16 + l) as u8);
    }
    Some(v)
}

/// cut long strings for evidence/replay readability
pub fn trunc(s: &str, max: usize) -> String {
    if s.len() <= max {
        s.to_string()
    } else {
        let mut e = max;
        while !s.is_char_boundary(e) {
            e -= 1;
        }
        format!("{}...(+{} bytes)", &s[..e], s.len() - e)
    }
}
