//! FIBEX model generator, XML emitter and damage operators (DESIGN.md §4.5).
//! The expected `FibexMetadata` is computed from the abstract model and the chosen layout,
//! never by parsing.

use crate::rng::Rng;
use dlt_core::dlt::{FloatWidth, StringCoding, TypeInfo, TypeInfoKind, TypeLength};
use dlt_core::fibex::{FrameMetadata, PduMetadata};
use std::collections::HashMap;

#[derive(Clone, Debug)]
pub struct Pdu {
    pub id: String,
    pub desc: Option<String>,
    pub sigs: Vec<(usize, String)>,
}

#[derive(Clone, Debug)]
pub struct Ext {
    pub app: Option<String>,
    pub ctx: Option<String>,
    pub mtype: Option<String>,
    pub minfo: Option<String>,
}

#[derive(Clone, Debug)]
pub struct Frame {
    pub id: String,
    pub name: String,
    pub ext: Option<Ext>,
    pub pdus: Vec<(usize, String)>,
}

#[derive(Clone, Debug)]
pub enum El {
    P(Pdu),
    F(Frame),
    /// signal id -> coding ref
    S(String, String),
    /// coding id -> base data type
    C(String, String),
}

#[derive(Clone, Debug)]
pub struct Model {
    pub pdus: Vec<Pdu>,
    pub frames: Vec<Frame>,
    pub signals: Vec<(String, String)>,
    pub codings: Vec<(String, String)>,
    pub dangling: bool,
}

pub const STD_SIGNALS: &[&str] = &[
    "S_BOOL", "S_SINT8", "S_UINT8", "S_SINT16", "S_UINT16", "S_SINT32", "S_UINT32", "S_SINT64", "S_UINT64", "S_FLOA16", "S_FLOA32", "S_FLOA64", "S_STRG_ASCII",
    "S_STRG_UTF8", "S_RAWD", "S_RAW", "S_NOPE",
];
pub const BASE_TYPES: &[&str] = &[
    "A_UINT8", "A_INT8", "A_SINT8", "A_UINT16", "A_INT16", "A_SINT16", "A_UINT32", "A_INT32", "A_SINT32", "A_UINT64", "A_INT64", "A_SINT64", "A_FLOAT32", "A_FLOAT64",
    "A_ASCIISTRING", "A_UNICODE2STRING", "A_BYTEFIELD", "A_BITFIELD",
];
const TEXTS: &[&str] = &["x", "speed: ", "a&b", "<tag>", "é€", " lead", "q\"uote", "1 2", "it's", "tab\there", "𝄞"];
// pools chosen so that different (context, application) pairs have equal concatenations
// ("AB"+"C" == "A"+"BC") and ids differ only in trailing blanks
const APPS: &[&str] = &["APP", "DR", "A", "éé", "BC", "C", "A ", "DOOR", "DOOR_L", "DOOR_R"];
const CTXS: &[&str] = &["CTX1", "C2", "TIME", "A", "AB", "AB ", "BODY", "BODY1", "BODY2"];

fn wide_id(r: &mut Rng) -> String {
    const CH: &[&str] = &["A", "b", "7", "_", "é", "ß", "€", "あ", "𝄞", "😀"];
    let n = 1 + r.usize_below(9);
    (0..n).map(|_| *r.pick(CH)).collect()
}

fn ti(kind: TypeInfoKind, coding: StringCoding) -> TypeInfo {
    TypeInfo {
        kind,
        coding,
        has_variable_info: false,
        has_trace_info: false,
    }
}

/// Some(Some(t)) standard name with a type, Some(None) standard name without support, None not a standard name
pub fn std_signal(s: &str) -> Option<Option<TypeInfo>> {
    use TypeInfoKind::*;
    use TypeLength::*;
    let a = StringCoding::ASCII;
    Some(match s {
        "S_BOOL" => Some(ti(Bool, a)),
        "S_SINT8" => Some(ti(Signed(BitLength8), a)),
        "S_UINT8" => Some(ti(Unsigned(BitLength8), a)),
        "S_SINT16" => Some(ti(Signed(BitLength16), a)),
        "S_UINT16" => Some(ti(Unsigned(BitLength16), a)),
        "S_SINT32" => Some(ti(Signed(BitLength32), a)),
        "S_UINT32" => Some(ti(Unsigned(BitLength32), a)),
        "S_SINT64" => Some(ti(Signed(BitLength64), a)),
        "S_UINT64" => Some(ti(Unsigned(BitLength64), a)),
        "S_FLOA16" => None,
        "S_FLOA32" => Some(ti(Float(FloatWidth::Width32), a)),
        "S_FLOA64" => Some(ti(Float(FloatWidth::Width64), a)),
        "S_STRG_ASCII" => Some(ti(StringType, a)),
        "S_STRG_UTF8" => Some(ti(StringType, StringCoding::UTF8)),
        "S_RAWD" | "S_RAW" => Some(ti(Raw, a)),
        _ => return None,
    })
}

pub fn base_type(s: &str) -> Option<TypeInfo> {
    use TypeInfoKind::*;
    use TypeLength::*;
    let a = StringCoding::ASCII;
    Some(match s {
        "A_UINT8" => ti(Unsigned(BitLength8), a),
        "A_INT8" | "A_SINT8" => ti(Signed(BitLength8), a),
        "A_UINT16" => ti(Unsigned(BitLength16), a),
        "A_INT16" | "A_SINT16" => ti(Signed(BitLength16), a),
        "A_UINT32" => ti(Unsigned(BitLength32), a),
        "A_INT32" | "A_SINT32" => ti(Signed(BitLength32), a),
        "A_UINT64" => ti(Unsigned(BitLength64), a),
        "A_INT64" | "A_SINT64" => ti(Signed(BitLength64), a),
        "A_FLOAT32" => ti(Float(FloatWidth::Width32), a),
        "A_FLOAT64" => ti(Float(FloatWidth::Width64), a),
        "A_ASCIISTRING" => ti(StringType, a),
        "A_UNICODE2STRING" => ti(StringType, StringCoding::UTF8),
        _ => return None,
    })
}

pub fn gen_model(r: &mut Rng, small: bool) -> Model {
    let ncod = r.below(if small { 3 } else { 6 }) as usize;
    let codings: Vec<(String, String)> = (0..ncod).map(|i| (format!("COD_{}", i), r.pick(BASE_TYPES).to_string())).collect();
    let nsig = r.below(if small { 3 } else { 6 }) as usize;
    let signals: Vec<(String, String)> = (0..nsig)
        .map(|i| {
            (
                format!("SIG_{}", i),
                if ncod > 0 && r.chance(5, 6) {
                    codings[r.usize_below(ncod)].0.clone()
                } else {
                    "COD_MISSING".to_string()
                },
            )
        })
        .collect();
    let mut signals = signals;
    // a SIGNAL whose CODING-REF names no CODING but a SIGNAL id (itself, an earlier or a later one: chains and
    // cycles of references). No coding is reached, so references to such a signal are unknown and skipped.
    if nsig > 0 && r.chance(1, 5) {
        for i in 0..nsig {
            if r.chance(1, 2) {
                let j = match r.below(3) {
                    0 => i,
                    1 => (i + 1) % nsig,
                    _ => r.usize_below(nsig),
                };
                signals[i].1 = signals[j].0.clone();
            }
        }
    }
    if ncod > 0 && r.chance(1, 6) {
        // a SIGNAL element that re-declares a standard signal name with some coding: references to
        // that name keep their standard meaning
        let n = r.range(1, 2);
        for _ in 0..n {
            let name = r.pick(STD_SIGNALS).to_string();
            if name != "S_NOPE" && !signals.iter().any(|(id, _)| *id == name) {
                signals.push((name, codings[r.usize_below(ncod)].0.clone()));
            }
        }
    }
    let npdu = r.below(if small { 4 } else { 31 }) as usize;
    let mut pdus: Vec<Pdu> = vec![];
    for i in 0..npdu {
        // duplicates of an earlier id with different content
        let id = if i > 0 && r.chance(1, 7) { pdus[r.usize_below(i)].id.clone() } else { format!("P_{}", i) };
        let ns = r.below(7) as usize;
        // distinct, non-contiguous sequence numbers in shuffled order
        let mut seqs: Vec<usize> = vec![];
        let mut s = r.below(3) as usize;
        for _ in 0..ns {
            seqs.push(s);
            s += 1 + r.below(4) as usize;
        }
        // numbers far apart (the order is all that matters; the gap must not)
        if ns >= 2 && r.chance(1, 24) {
            let last = seqs.len() - 1;
            seqs[last] = *r.pick(&[usize::MAX, usize::MAX - 1, 1usize << 62, 1_000_000_000_000, 4_294_967_296]);
        }
        r.shuffle(&mut seqs);
        let sigs = seqs
            .into_iter()
            .map(|q| {
                (
                    q,
                    if nsig > 0 && r.chance(1, 3) {
                        signals[r.usize_below(nsig)].0.clone()
                    } else if r.chance(1, 25) {
                        "SIG_UNKNOWN".to_string()
                    } else {
                        r.pick(STD_SIGNALS).to_string()
                    },
                )
            })
            .collect();
        pdus.push(Pdu {
            id,
            desc: if r.chance(1, 2) { Some(r.pick(TEXTS).to_string()) } else { None },
            sigs,
        });
    }
    let nfr = r.below(if small { 3 } else { 13 }) as usize;
    let dangling = nfr > 0 && r.chance(1, 12);
    let mut frames: Vec<Frame> = vec![];
    for i in 0..nfr {
        let id = if i > 0 && r.chance(1, 5) {
            frames[r.usize_below(i)].id.clone()
        } else if r.chance(1, 8) {
            format!("FRAME_{}", i)
        } else {
            format!("ID_{}", if r.chance(1, 10) { 4_000_000_000u64 + i as u64 } else { i as u64 * 7 })
        };
        let np = if npdu == 0 { 0 } else { r.below(6) as usize };
        let mut seqs: Vec<usize> = vec![];
        let mut s = r.below(3) as usize;
        for _ in 0..np {
            seqs.push(s);
            s += 1 + r.below(3) as usize;
        }
        if np >= 2 && r.chance(1, 24) {
            let last = seqs.len() - 1;
            seqs[last] = *r.pick(&[usize::MAX, usize::MAX - 1, 1usize << 62, 1_000_000_000_000, 4_294_967_296]);
        }
        r.shuffle(&mut seqs);
        let mut p: Vec<(usize, String)> = seqs.into_iter().map(|q| (q, pdus[r.usize_below(npdu)].id.clone())).collect();
        if dangling && i == nfr - 1 {
            let at = r.usize_below(p.len() + 1);
            p.insert(at, (1000 + i, "P_NOPE".into()));
        }
        let opt = |r: &mut Rng, v: &str| if r.chance(5, 6) { Some(v.to_string()) } else { None };
        let ext = if r.chance(5, 6) {
            // one frame in five: ids of 1-9 scalars drawn from 1-, 2-, 3- and 4-byte characters, so that a
            // multi-byte character straddles every byte offset (an id is text in the model, not a 4-byte field)
            let (app_s, ctx_s) = (wide_id(r), wide_id(r));
            let wide = r.chance(1, 5);
            let app = if wide { app_s.as_str() } else { *r.pick(APPS) };
            let ctx = if wide && r.chance(2, 3) { ctx_s.as_str() } else { *r.pick(CTXS) };
            let mt = *r.pick(&["DLT_TYPE_LOG", "DLT_TYPE_APP_TRACE", "DLT_TYPE_CONTROL"]);
            let mi = *r.pick(&["DLT_LOG_WARN", "DLT_LOG_INFO", "x&y"]);
            Some(Ext {
                app: opt(r, app),
                ctx: opt(r, ctx),
                mtype: opt(r, mt),
                minfo: opt(r, mi),
            })
        } else {
            None
        };
        frames.push(Frame {
            id,
            name: r.pick(TEXTS).to_string(),
            ext,
            pdus: p,
        });
    }
    Model {
        pdus,
        frames,
        signals,
        codings,
        dangling,
    }
}

#[derive(Clone, Debug)]
pub struct Layout {
    pub files: Vec<Vec<El>>,
    pub grouped: bool,
}

pub fn gen_layout(r: &mut Rng, m: &Model) -> Layout {
    let mut els: Vec<El> = m
        .pdus
        .iter()
        .cloned()
        .map(El::P)
        .chain(m.frames.iter().cloned().map(El::F))
        .chain(m.signals.iter().cloned().map(|(a, b)| El::S(a, b)))
        .chain(m.codings.iter().cloned().map(|(a, b)| El::C(a, b)))
        .collect();
    let grouped = r.chance(1, 2);
    if !grouped {
        r.shuffle(&mut els);
    } else {
        let mut groups: Vec<Vec<El>> = vec![vec![], vec![], vec![], vec![]];
        for e in els.drain(..) {
            let k = match e {
                El::P(_) => 0,
                El::F(_) => 1,
                El::S(..) => 2,
                El::C(..) => 3,
            };
            groups[k].push(e);
        }
        for g in groups.iter_mut() {
            if r.chance(1, 2) {
                r.shuffle(g);
            }
        }
        r.shuffle(&mut groups);
        els = groups.into_iter().flatten().collect();
    }
    let nfiles = 1 + r.below(4) as usize;
    let mut files: Vec<Vec<El>> = vec![vec![]; nfiles];
    for e in els {
        let f = r.usize_below(nfiles);
        files[f].push(e);
    }
    Layout { files, grouped }
}

/// The model the loader must return for this model + layout (None when a PDU reference dangles):
/// first definition in (file order, document order) wins per frame id, per (context, app,
/// frame id) and per PDU id; PDUs / signals ordered by sequence number; unknown signal
/// references skipped.
/// the expected model, keyed by plain tuples / strings in ordered maps so that neither building
/// nor comparing it depends on the crate's own `Eq` / `Hash` implementations for its key type
#[derive(Clone, Debug)]
pub struct ExpectedMeta {
    pub frame_map: std::collections::BTreeMap<String, FrameMetadata>,
    /// (context id, application id, frame id)
    pub keyed: std::collections::BTreeMap<(String, String, String), FrameMetadata>,
}

/// String-validity monitor for a loaded model: every `String` reachable from it must hold valid UTF-8 (an
/// invalid one can only come from an unchecked conversion; neither Miri nor ASan reports it by itself).
/// Returns the place of the first offender.
pub fn invalid_string_in_model(m: &dlt_core::fibex::FibexMetadata) -> Option<String> {
    let bad = |s: &str| std::str::from_utf8(s.as_bytes()).is_err();
    let frame = |f: &FrameMetadata| -> Option<&'static str> {
        if bad(&f.short_name) {
            return Some("short_name");
        }
        for (o, n) in [(&f.application_id, "application_id"), (&f.context_id, "context_id"), (&f.message_type, "message_type"), (&f.message_info, "message_info")] {
            if o.as_deref().map_or(false, bad) {
                return Some(n);
            }
        }
        if f.pdus.iter().any(|p| p.description.as_deref().map_or(false, bad)) {
            return Some("pdu.description");
        }
        None
    };
    for (k, f) in &m.frame_map {
        if bad(k) {
            return Some("frame_map key".into());
        }
        if let Some(w) = frame(f) {
            return Some(format!("frame_map value: {}", w));
        }
    }
    for (k, f) in &m.frame_map_with_key {
        if bad(&k.context_id) || bad(&k.app_id) || bad(&k.frame_id) {
            return Some("frame_map_with_key key".into());
        }
        if let Some(w) = frame(f) {
            return Some(format!("frame_map_with_key value: {}", w));
        }
    }
    None
}

/// Marks a position of an expected signal-type list about which the property says nothing: the reference
/// resolves to a type name that exists in FIBEX but lies outside the vocabulary the loader supports today
/// (S_FLOA16; a CODING whose base data type is e.g. A_BYTEFIELD, A_BITFIELD). The statement quantifies over
/// "the supported type vocabulary": whether such a signal is skipped (as the pinned code does) or mapped to
/// some type by a later version is left open, so the slot matches zero or one returned type. The value can
/// never come out of the loader (reserved string coding 0x7e).
pub fn open_slot() -> TypeInfo {
    TypeInfo {
        kind: TypeInfoKind::Bool,
        coding: StringCoding::Reserved(0x7e),
        has_variable_info: true,
        has_trace_info: true,
    }
}

fn is_open_slot(t: &TypeInfo) -> bool {
    matches!(t.coding, StringCoding::Reserved(0x7e)) && t.has_variable_info && t.has_trace_info
}

/// `got` against the expected pattern `exp` (open slots match zero or one element)
pub fn types_match(got: &[TypeInfo], exp: &[TypeInfo]) -> bool {
    match exp.split_first() {
        None => got.is_empty(),
        Some((e, rest)) if is_open_slot(e) => types_match(got, rest) || (!got.is_empty() && types_match(&got[1..], rest)),
        Some((e, rest)) => !got.is_empty() && format!("{:?}", got[0]) == format!("{:?}", e) && types_match(&got[1..], rest),
    }
}

/// field-by-field comparison (no derived PartialEq of the crate involved above the leaf types);
/// `a` is what the crate returned, `b` the expectation (which may contain open slots)
pub fn same_frame(a: &FrameMetadata, b: &FrameMetadata) -> bool {
    a.short_name == b.short_name
        && a.application_id == b.application_id
        && a.context_id == b.context_id
        && a.message_type == b.message_type
        && a.message_info == b.message_info
        && a.pdus.len() == b.pdus.len()
        && a.pdus.iter().zip(&b.pdus).all(|(x, y)| {
            x.description == y.description && types_match(&x.signal_types, &y.signal_types)
        })
}

pub fn expected_metadata(m: &Model, l: &Layout) -> Option<ExpectedMeta> {
    let sigmap: HashMap<&str, &str> = m.signals.iter().map(|(a, b)| (a.as_str(), b.as_str())).collect();
    let codmap: HashMap<&str, &str> = m.codings.iter().map(|(a, b)| (a.as_str(), b.as_str())).collect();
    // Some(type) demanded; None demanded to be skipped (unknown reference: no such signal, no such coding,
    // references that never reach a coding); open slot where the name lies outside the supported vocabulary
    let resolve = |s: &str| -> Option<TypeInfo> {
        match std_signal(s) {
            Some(Some(t)) => Some(t),
            Some(None) => Some(open_slot()),
            None => match sigmap.get(s).and_then(|c| codmap.get(c)) {
                Some(b) => Some(base_type(b).unwrap_or_else(open_slot)),
                None => None,
            },
        }
    };
    let mut pmap: HashMap<String, PduMetadata> = HashMap::new();
    for f in &l.files {
        for e in f {
            if let El::P(p) = e {
                if !pmap.contains_key(&p.id) {
                    let mut s = p.sigs.clone();
                    s.sort_by_key(|x| x.0);
                    pmap.insert(
                        p.id.clone(),
                        PduMetadata {
                            description: p.desc.clone(),
                            signal_types: s.iter().filter_map(|(_, n)| resolve(n)).collect(),
                        },
                    );
                }
            }
        }
    }
    let mut fm: std::collections::BTreeMap<String, FrameMetadata> = Default::default();
    let mut fk: std::collections::BTreeMap<(String, String, String), FrameMetadata> = Default::default();
    for f in &l.files {
        for e in f {
            if let El::F(fr) = e {
                let mut ps = fr.pdus.clone();
                ps.sort_by_key(|x| x.0);
                let mut pdus = vec![];
                for (_, id) in &ps {
                    pdus.push(pmap.get(id)?.clone());
                }
                let (app, ctx, mt, mi) = match &fr.ext {
                    Some(x) => (x.app.clone(), x.ctx.clone(), x.mtype.clone(), x.minfo.clone()),
                    None => (None, None, None, None),
                };
                let meta = FrameMetadata {
                    short_name: fr.name.clone(),
                    pdus,
                    application_id: app.clone(),
                    context_id: ctx.clone(),
                    message_type: mt,
                    message_info: mi,
                };
                if let (Some(c), Some(a)) = (&ctx, &app) {
                    fk.entry((c.clone(), a.clone(), fr.id.clone())).or_insert_with(|| meta.clone());
                }
                fm.entry(fr.id.clone()).or_insert(meta);
            }
        }
    }
    Some(ExpectedMeta { frame_map: fm, keyed: fk })
}

pub fn esc_text(r: &mut Rng, s: &str) -> String {
    let mut out = String::new();
    for c in s.chars() {
        match c {
            '&' => out.push_str("&amp;"),
            '<' => out.push_str("&lt;"),
            '>' => out.push_str(if r.chance(1, 2) { "&gt;" } else { ">" }),
            '"' => out.push_str(if r.chance(1, 2) { "&quot;" } else { "\"" }),
            '\'' => out.push_str(if r.chance(1, 2) { "&apos;" } else { "'" }),
            c if r.chance(1, 20) => out.push_str(&format!("&#{};", c as u32)),
            c if r.chance(1, 20) => out.push_str(&format!("&#x{:x};", c as u32)),
            c => out.push(c),
        }
    }
    out
}

fn esc_attr(s: &str) -> String {
    s.replace('&', "&amp;").replace('<', "&lt;").replace('"', "&quot;")
}

/// optional LONG-NAME / DESC children that the FIBEX "name details" group allows on every named
/// element; on anything but a PDU they carry no information for the model and must not leak into it
fn name_noise(r: &mut Rng, ho: &str) -> Vec<String> {
    let mut v = vec![];
    if r.chance(1, 4) {
        let t = *r.pick(TEXTS);
        v.push(format!("<{ho}LONG-NAME>{}</{ho}LONG-NAME>", esc_text(r, t)));
    }
    if r.chance(1, 3) {
        let t = *r.pick(&["stray description", "d&d", "engine speed report", "x"]);
        v.push(format!("<{ho}DESC>{}</{ho}DESC>", esc_text(r, t)));
    }
    v
}

/// extra attributes the schema allows next to ID / ID-REF (object identifiers, schema types);
/// their names end in the same letters as the attributes the loader looks for
fn attr_noise(r: &mut Rng, for_ref: bool) -> (String, String) {
    let pick = |r: &mut Rng| -> String {
        if for_ref {
            match r.below(3) {
                0 => format!("OID-REF=\"oid-{}\" ", r.below(1000)),
                1 => "xsi:type=\"fx:REF\" ".to_string(),
                _ => format!("DEST-ID-REF=\"x{}\" ", r.below(9)),
            }
        } else {
            match r.below(4) {
                0 => format!("OID=\"{:08x}-oid\" ", r.u32()),
                1 => "xsi:type=\"fx:T\" ".to_string(),
                2 => format!("UUID=\"{:08x}\" ", r.u32()),
                _ => format!("GID=\"g{}\" ", r.below(99)),
            }
        }
    };
    match r.below(8) {
        0 => (pick(r), String::new()),
        1 => (String::new(), format!(" {}", pick(r).trim_end())),
        2 => {
            // two different extra attributes (an attribute name may occur only once per element)
            let a = pick(r);
            let mut b = pick(r);
            let name = |t: &str| t.split('=').next().unwrap_or("").to_string();
            let mut tries = 0;
            while name(&a) == name(&b) && tries < 8 {
                b = pick(r);
                tries += 1;
            }
            if name(&a) == name(&b) {
                (a, String::new())
            } else {
                (a, format!(" {}", b.trim_end()))
            }
        }
        _ => (String::new(), String::new()),
    }
}

/// an element of a section the loader does not use (channels, gateways, function descriptions)
fn unrelated_section(r: &mut Rng, fx: &str, ho: &str) -> String {
    match r.below(3) {
        0 => format!("<{fx}CHANNELS><{fx}CHANNEL ID=\"ch0\"><{ho}SHORT-NAME>chan</{ho}SHORT-NAME>{}</{fx}CHANNEL></{fx}CHANNELS>", name_noise(r, ho).concat()),
        1 => format!("<{fx}FUNCTIONS><{fx}FUNCTION ID=\"fn0\"><{ho}SHORT-NAME>f</{ho}SHORT-NAME><{ho}DESC>function description</{ho}DESC></{fx}FUNCTION></{fx}FUNCTIONS>"),
        _ => format!("<{fx}GATEWAYS><{fx}GATEWAY ID=\"gw\"><{ho}SHORT-NAME>g</{ho}SHORT-NAME>{}<{fx}ECU-REF ID-REF=\"E\"/></{fx}GATEWAY></{fx}GATEWAYS>", name_noise(r, ho).concat()),
    }
}

/// XML text of one file of the layout
pub fn emit_file(r: &mut Rng, els: &[El]) -> String {
    let (fx, ho) = *r.pick(&[("fx:", "ho:"), ("", ""), ("a:", "b:"), ("fx:", "")]);
    let nl = *r.pick(&["\n", "\n  ", "", "\r\n", " "]);
    let attr_prefix = if r.chance(1, 6) { "ho:" } else { "" };
    let mut x = String::new();
    if r.chance(4, 5) {
        x.push_str("<?xml version=\"1.0\" encoding=\"UTF-8\"?>\n");
    }
    x += &format!("<{fx}FIBEX xmlns:ho=\"http://www.asam.net/xml\" xmlns:fx=\"http://www.asam.net/xml/fbx\" xmlns:a=\"u:a\" xmlns:b=\"u:b\">{nl}");
    if r.chance(1, 2) {
        x += &format!("<{fx}PROJECT ID=\"Project\"><{ho}SHORT-NAME>ProjectName</{ho}SHORT-NAME>{}</{fx}PROJECT>{nl}", name_noise(r, ho).concat());
    }
    x += &format!("<{fx}ELEMENTS>{nl}");
    if r.chance(1, 2) {
        // an ECU with its own manufacturer extension: must not leak into frames
        x += &format!("<{fx}ECUS><{fx}ECU ID=\"E\"><{ho}SHORT-NAME>E</{ho}SHORT-NAME>{}<{fx}MANUFACTURER-EXTENSION><SW_VERSION>1</SW_VERSION><APPLICATIONS><APPLICATION><APPLICATION_ID>ZZ</APPLICATION_ID><CONTEXTS><CONTEXT><CONTEXT_ID>YY</CONTEXT_ID></CONTEXT></CONTEXTS></APPLICATION></APPLICATIONS></{fx}MANUFACTURER-EXTENSION></{fx}ECU></{fx}ECUS>{nl}", name_noise(r, ho).concat());
    }
    let mut open_container: Option<&'static str> = None;
    let use_containers = r.chance(1, 2);
    for e in els {
        let want = match e {
            El::P(_) => "PDUS",
            El::F(_) => "FRAMES",
            El::S(..) => "SIGNALS",
            El::C(..) => "CODINGS",
        };
        if use_containers && open_container != Some(want) {
            if let Some(c) = open_container {
                x += &format!("</{fx}{c}>{nl}");
            }
            if r.chance(1, 5) {
                x += &unrelated_section(r, fx, ho);
            }
            x += &format!("<{fx}{want}>{nl}");
            open_container = Some(want);
        }
        if r.chance(1, 10) {
            x += "<!-- comment with a PDU word -->";
        }
        if !use_containers && r.chance(1, 8) {
            x += &unrelated_section(r, fx, ho);
        }
        match e {
            El::P(p) => {
                let mut kids = vec![format!("<{ho}SHORT-NAME>{}</{ho}SHORT-NAME>", p.id), format!("<{fx}BYTE-LENGTH>{}</{fx}BYTE-LENGTH>", r.below(9)), format!("<{fx}PDU-TYPE>OTHER</{fx}PDU-TYPE>")];
                if let Some(d) = &p.desc {
                    kids.push(format!("<{ho}DESC>{}</{ho}DESC>", esc_text(r, d)));
                } else if r.chance(1, 6) {
                    kids.push(format!("<{ho}DESC></{ho}DESC>")); // empty description == no description
                }
                if r.chance(1, 5) {
                    let t = *r.pick(TEXTS);
                    kids.push(format!("<{ho}LONG-NAME>{}</{ho}LONG-NAME>", esc_text(r, t)));
                }
                if !p.sigs.is_empty() || r.chance(1, 3) {
                    let mut s = format!("<{fx}SIGNAL-INSTANCES>");
                    for (k, (q, n)) in p.sigs.iter().enumerate() {
                        let mut k2 = vec![
                            format!("<{fx}SEQUENCE-NUMBER>{}</{fx}SEQUENCE-NUMBER>", q),
                            if r.chance(1, 2) {
                                {
                                    let (ra, rb) = attr_noise(r, true);
                                    format!("<{fx}SIGNAL-REF {ra}{attr_prefix}ID-REF=\"{}\"{rb}/>", n)
                                }
                            } else {
                                format!("<{fx}SIGNAL-REF ID-REF=\"{}\"></{fx}SIGNAL-REF>", n)
                            },
                        ];
                        if r.chance(1, 4) {
                            k2.push(format!("<{fx}BIT-POSITION>{}</{fx}BIT-POSITION>", r.below(64)));
                        }
                        if r.chance(1, 6) {
                            k2.push(format!("<{fx}IS-HIGH-LOW-BYTE-ORDER>false</{fx}IS-HIGH-LOW-BYTE-ORDER>"));
                        }
                        r.shuffle(&mut k2);
                        let (na, nb) = attr_noise(r, false);
                        s += &format!("<{fx}SIGNAL-INSTANCE {na}{attr_prefix}ID=\"si{}\"{nb}>{}</{fx}SIGNAL-INSTANCE>{nl}", k, k2.concat());
                    }
                    s += &format!("</{fx}SIGNAL-INSTANCES>");
                    kids.push(s);
                }
                r.shuffle(&mut kids);
                let (na, nb) = attr_noise(r, false);
                x += &format!("<{fx}PDU {na}{attr_prefix}ID=\"{}\"{nb}>{nl}{}{nl}</{fx}PDU>{nl}", esc_attr(&p.id), kids.join(nl));
            }
            El::F(fr) => {
                let mut kids = vec![format!("<{ho}SHORT-NAME>{}</{ho}SHORT-NAME>", esc_text(r, &fr.name)), format!("<{fx}BYTE-LENGTH>{}</{fx}BYTE-LENGTH>", r.below(99)), format!("<{fx}FRAME-TYPE>OTHER</{fx}FRAME-TYPE>")];
                let mut s = format!("<{fx}PDU-INSTANCES>");
                for (k, (q, n)) in fr.pdus.iter().enumerate() {
                    let mut k2 = vec![
                        format!("<{fx}SEQUENCE-NUMBER>{}</{fx}SEQUENCE-NUMBER>", q),
                        if r.chance(1, 2) {
                            {
                                let (ra, rb) = attr_noise(r, true);
                                format!("<{fx}PDU-REF {ra}ID-REF=\"{}\"{rb}/>", n)
                            }
                        } else {
                            format!("<{fx}PDU-REF {attr_prefix}ID-REF=\"{}\"></{fx}PDU-REF>", n)
                        },
                    ];
                    if r.chance(1, 4) {
                        k2.push(format!("<{fx}BIT-POSITION>{}</{fx}BIT-POSITION>", r.below(64)));
                    }
                    if r.chance(1, 6) {
                        k2.push(format!("<{fx}IS-HIGH-LOW-BYTE-ORDER>true</{fx}IS-HIGH-LOW-BYTE-ORDER>"));
                    }
                    r.shuffle(&mut k2);
                    let (na, nb) = attr_noise(r, false);
                    s += &format!("<{fx}PDU-INSTANCE {na}ID=\"pi{}\"{nb}>{}</{fx}PDU-INSTANCE>{nl}", k, k2.concat());
                }
                s += &format!("</{fx}PDU-INSTANCES>");
                if !fr.pdus.is_empty() || r.chance(1, 2) {
                    kids.push(s);
                }
                if let Some(ext) = &fr.ext {
                    let mut k3 = vec![];
                    if let Some(v) = &ext.mtype {
                        k3.push(format!("<MESSAGE_TYPE>{}</MESSAGE_TYPE>", esc_text(r, v)));
                    }
                    if let Some(v) = &ext.minfo {
                        k3.push(format!("<MESSAGE_INFO>{}</MESSAGE_INFO>", esc_text(r, v)));
                    }
                    if let Some(v) = &ext.app {
                        k3.push(format!("<APPLICATION_ID>{}</APPLICATION_ID>", esc_text(r, v)));
                    }
                    if let Some(v) = &ext.ctx {
                        k3.push(format!("<CONTEXT_ID>{}</CONTEXT_ID>", esc_text(r, v)));
                    }
                    k3.push("<MESSAGE_LINE_NUMBER>66</MESSAGE_LINE_NUMBER>".into());
                    k3.push("<MESSAGE_SOURCE_FILE>a.c</MESSAGE_SOURCE_FILE>".into());
                    r.shuffle(&mut k3);
                    kids.push(format!("<{fx}MANUFACTURER-EXTENSION>{}</{fx}MANUFACTURER-EXTENSION>", k3.concat()));
                }
                kids.extend(name_noise(r, ho));
                r.shuffle(&mut kids);
                let (na, nb) = attr_noise(r, false);
                x += &format!("<{fx}FRAME {na}ID=\"{}\"{nb}>{nl}{}{nl}</{fx}FRAME>{nl}", esc_attr(&fr.id), kids.join(nl));
            }
            El::S(id, c) => {
                let (ra, rb) = attr_noise(r, true);
                let mut kids = vec![format!("<{ho}SHORT-NAME>{}</{ho}SHORT-NAME>", id), format!("<{fx}CODING-REF {ra}ID-REF=\"{}\"{rb}/>", c)];
                kids.extend(name_noise(r, ho));
                if r.chance(1, 2) {
                    r.shuffle(&mut kids);
                }
                let (na, nb) = attr_noise(r, false);
                x += &format!("<{fx}SIGNAL {na}ID=\"{}\"{nb}>{}</{fx}SIGNAL>{nl}", id, kids.concat());
            }
            El::C(id, b) => {
                // a PHYSICAL-TYPE with its own (different) base data type: only the CODED-TYPE counts
                let phys = if r.chance(1, 3) { format!("<{ho}PHYSICAL-TYPE {ho}BASE-DATA-TYPE=\"{}\"/>", r.pick(BASE_TYPES)) } else { String::new() };
                let (phys_before, phys_after) = if r.chance(1, 2) { (phys.clone(), String::new()) } else { (String::new(), phys.clone()) };
                let noise = name_noise(r, ho).concat();
                // BIT-LENGTH, where present, repeats the width the base data type already states (8 for the
                // types without a width in their name), so that it cannot matter whether a loader looks at it
                let digits: String = b.chars().filter(|c| c.is_ascii_digit()).collect();
                let bl: usize = digits.parse().unwrap_or(8);
                x += &if r.chance(1, 2) {
                    format!("<{fx}CODING ID=\"{}\"><{ho}SHORT-NAME>{}</{ho}SHORT-NAME>{noise}{phys_before}<{ho}CODED-TYPE {ho}BASE-DATA-TYPE=\"{}\" CATEGORY=\"STANDARD-LENGTH-TYPE\"/>{phys_after}</{fx}CODING>{nl}", id, id, b)
                } else {
                    format!("<{fx}CODING ID=\"{}\">{phys_before}<{ho}CODED-TYPE CATEGORY=\"X\" BASE-DATA-TYPE=\"{}\"><{ho}BIT-LENGTH>{bl}</{ho}BIT-LENGTH></{ho}CODED-TYPE>{phys_after}{noise}</{fx}CODING>{nl}", id, b)
                };
            }
        }
    }
    if let Some(c) = open_container {
        x += &format!("</{fx}{c}>{nl}");
    }
    x += &format!("</{fx}ELEMENTS>{nl}</{fx}FIBEX>\n");
    x
}

// ------------------------------------------------------------------ damage (C12)

pub const DAMAGE_OPS: &[&str] = &[
    "truncate",
    "delete_start_tag",
    "delete_end_tag",
    "delete_element",
    "delete_attribute",
    "substitute_bytes",
    "insert_bytes",
    "oversized_number",
    "invalid_utf8",
    "bom_or_cdata_or_entity",
    "duplicate_region",
    "alias_cycle",
    "nest_element",
    "non_ascii_number",
    "degenerate_markup",
];

/// byte ranges of all tags `<...>` (document produced by the emitter: no '>' inside attribute values)
fn tags(doc: &[u8]) -> Vec<(usize, usize)> {
    let mut v = vec![];
    let mut i = 0;
    while i < doc.len() {
        if doc[i] == b'<' {
            if let Some(j) = doc[i..].iter().position(|&c| c == b'>') {
                v.push((i, i + j + 1));
                i += j + 1;
                continue;
            }
        }
        i += 1;
    }
    v
}

fn tag_name(doc: &[u8], t: (usize, usize)) -> String {
    let inner = &doc[t.0 + 1..t.1 - 1];
    let inner = if inner.first() == Some(&b'/') { &inner[1..] } else { inner };
    let end = inner.iter().position(|&c| c == b' ' || c == b'/' || c == b'>').unwrap_or(inner.len());
    String::from_utf8_lossy(&inner[..end]).into_owned()
}

/// nesting context of byte offset `off`: which of PDU / FRAME / instance / text the offset is inside
pub fn context_at(doc: &[u8], off: usize) -> &'static str {
    let mut stack: Vec<String> = vec![];
    for t in tags(doc) {
        if t.0 >= off {
            break;
        }
        if off < t.1 {
            return "in_tag";
        }
        let inner = &doc[t.0 + 1..t.1 - 1];
        if inner.first() == Some(&b'?') || inner.first() == Some(&b'!') {
            continue;
        }
        let name = tag_name(doc, t);
        let local = name.rsplit(':').next().unwrap_or("").to_string();
        if inner.first() == Some(&b'/') {
            if let Some(p) = stack.iter().rposition(|s| *s == local) {
                stack.truncate(p);
            }
        } else if inner.last() != Some(&b'/') {
            stack.push(local);
        }
    }
    if stack.iter().any(|s| s == "SIGNAL-INSTANCE" || s == "PDU-INSTANCE") {
        "in_instance"
    } else if stack.iter().any(|s| s == "PDU") {
        "in_pdu"
    } else if stack.iter().any(|s| s == "FRAME") {
        "in_frame"
    } else if stack.iter().any(|s| s == "SIGNAL" || s == "CODING") {
        "in_signal_or_coding"
    } else if stack.is_empty() {
        "outside_root"
    } else {
        "top"
    }
}

/// apply damage operator `op`; `sys` picks the systematic position where applicable
pub fn damage(r: &mut Rng, doc: &[u8], op: usize, sys: u64) -> (Vec<u8>, &'static str, usize) {
    let mut d = doc.to_vec();
    let ts = tags(doc);
    let name = DAMAGE_OPS[op % DAMAGE_OPS.len()];
    let mut at = 0usize;
    match name {
        "truncate" => {
            at = (sys as usize) % (doc.len() + 1);
            d.truncate(at);
        }
        "delete_start_tag" | "delete_end_tag" => {
            let want_end = name == "delete_end_tag";
            let cands: Vec<&(usize, usize)> = ts
                .iter()
                .filter(|t| {
                    let inner = &doc[t.0 + 1..t.1 - 1];
                    let is_end = inner.first() == Some(&b'/');
                    let special = inner.first() == Some(&b'?') || inner.first() == Some(&b'!') || inner.last() == Some(&b'/');
                    !special && is_end == want_end
                })
                .collect();
            if !cands.is_empty() {
                let t = cands[(sys as usize) % cands.len()];
                at = t.0;
                d.drain(t.0..t.1);
            }
        }
        "delete_element" => {
            // remove start tag .. matching end tag of one element
            let starts: Vec<usize> = (0..ts.len())
                .filter(|&i| {
                    let inner = &doc[ts[i].0 + 1..ts[i].1 - 1];
                    !(inner.first() == Some(&b'/') || inner.first() == Some(&b'?') || inner.first() == Some(&b'!'))
                })
                .collect();
            if !starts.is_empty() {
                let i = starts[(sys as usize) % starts.len()];
                let nm = tag_name(doc, ts[i]);
                let inner = &doc[ts[i].0 + 1..ts[i].1 - 1];
                at = ts[i].0;
                if inner.last() == Some(&b'/') {
                    d.drain(ts[i].0..ts[i].1);
                } else {
                    let mut depth = 0;
                    let mut end = ts[i].1;
                    for t in &ts[i..] {
                        let inn = &doc[t.0 + 1..t.1 - 1];
                        if tag_name(doc, *t) == nm && inn.last() != Some(&b'/') {
                            if inn.first() == Some(&b'/') {
                                depth -= 1;
                            } else {
                                depth += 1;
                            }
                            if depth == 0 {
                                end = t.1;
                                break;
                            }
                        }
                    }
                    d.drain(ts[i].0..end);
                }
            }
        }
        "delete_attribute" => {
            let cands: Vec<&(usize, usize)> = ts.iter().filter(|t| doc[t.0..t.1].contains(&b'=') && doc[t.0 + 1] != b'?').collect();
            if !cands.is_empty() {
                let t = cands[(sys as usize) % cands.len()];
                // remove from the first space to just before the closing '>' or '/>'
                if let Some(sp) = doc[t.0..t.1].iter().position(|&c| c == b' ') {
                    let close = if doc[t.1 - 2] == b'/' { t.1 - 2 } else { t.1 - 1 };
                    at = t.0 + sp;
                    if r.chance(1, 2) {
                        d.drain(t.0 + sp..close);
                    } else {
                        // only the value's closing quote: unterminated attribute
                        if let Some(q) = doc[t.0..close].iter().rposition(|&c| c == b'"') {
                            d.remove(t.0 + q);
                        }
                    }
                }
            }
        }
        "substitute_bytes" | "insert_bytes" => {
            let k = r.range(1, 3);
            for _ in 0..k {
                if d.is_empty() {
                    break;
                }
                let i = r.usize_below(d.len());
                at = i;
                let b = *r.pick(&[b'<', b'>', b'"', b'&', 0u8, 0xFF, b'/', b'=', b' ', b'\'']);
                if name == "insert_bytes" {
                    d.insert(i, b);
                } else {
                    d[i] = b;
                }
            }
        }
        "oversized_number" => {
            // replace a number inside SEQUENCE-NUMBER / BYTE-LENGTH
            let text = String::from_utf8_lossy(doc).into_owned();
            let key = if r.chance(1, 2) { "SEQUENCE-NUMBER>" } else { "BYTE-LENGTH>" };
            let occ: Vec<usize> = text.match_indices(key).map(|(i, _)| i + key.len()).filter(|&i| text.as_bytes().get(i).map_or(false, |c| c.is_ascii_digit())).collect();
            if !occ.is_empty() {
                let i = occ[(sys as usize) % occ.len()];
                at = i;
                let j = i + text[i..].bytes().position(|c| !c.is_ascii_digit()).unwrap_or(0);
                let rep = *r.pick(&["99999999999999999999999999", "-1", "1e3", " 1", "", "0x10", "18446744073709551616"]);
                d.splice(i..j, rep.bytes());
            }
        }
        "invalid_utf8" => {
            if !d.is_empty() {
                let i = r.usize_below(d.len());
                at = i;
                let bad = *r.pick(crate::mutate::INVALID_UTF8);
                for (k, b) in bad.iter().enumerate() {
                    if i + k < d.len() {
                        d[i + k] = *b;
                    }
                }
            }
        }
        "bom_or_cdata_or_entity" => match r.below(4) {
            0 => {
                let mut n = vec![0xEF, 0xBB, 0xBF];
                n.extend_from_slice(&d);
                d = n;
            }
            1 => {
                // CDATA inside a text element
                let text = String::from_utf8_lossy(doc).into_owned();
                if let Some(i) = text.find("SHORT-NAME>") {
                    at = i + 11;
                    d.splice(at..at, b"<![CDATA[x<y]]>".iter().cloned());
                }
            }
            2 => {
                let text = String::from_utf8_lossy(doc).into_owned();
                let occ: Vec<usize> = text.match_indices("DESC>").map(|(i, _)| i + 5).collect();
                if !occ.is_empty() {
                    at = occ[(sys as usize) % occ.len()];
                    d.splice(at..at, b"&unknown;".iter().cloned());
                } else if let Some(i) = text.find("SHORT-NAME>") {
                    at = i + 11;
                    d.splice(at..at, b"&bogus;&#xZZ;".iter().cloned());
                }
            }
            _ => {
                // a DOCTYPE with an internal subset and a processing instruction
                let text = String::from_utf8_lossy(doc).into_owned();
                let i = text.find("<fx:FIBEX").or_else(|| text.find("<FIBEX")).or_else(|| text.find("<a:FIBEX")).unwrap_or(0);
                at = i;
                d.splice(i..i, b"<!DOCTYPE x [<!ENTITY e \"v\">]><?pi data?>".iter().cloned());
            }
        },
        "alias_cycle" => {
            // make CODING-REFs point at SIGNAL ids (chains and cycles of signal aliases) and let a
            // SIGNAL-REF use one of them
            let text = String::from_utf8_lossy(doc).into_owned();
            let ids: Vec<String> = {
                let mut v = vec![];
                let mut from = 0;
                while let Some(i) = text[from..].find("SIGNAL ") {
                    let j = from + i;
                    // only real SIGNAL elements (not SIGNAL-INSTANCE / SIGNAL-REF)
                    let before = text[..j].chars().last();
                    if matches!(before, Some('<') | Some(':')) {
                        if let Some(k) = text[j..].find("ID=\"") {
                            let st = j + k + 4;
                            if let Some(e) = text[st..].find('"') {
                                v.push(text[st..st + e].to_string());
                            }
                        }
                    }
                    from = j + 7;
                }
                v
            };
            let mut out = text.clone();
            if ids.is_empty() {
                // no SIGNAL in the document: add two that alias each other, referenced by nothing
                if let Some(i) = out.find("</fx:ELEMENTS>").or_else(|| out.find("</ELEMENTS>")).or_else(|| out.find("</a:ELEMENTS>")) {
                    at = i;
                    out.insert_str(i, "<SIGNAL ID=\"SA\"><CODING-REF ID-REF=\"SB\"/></SIGNAL><SIGNAL ID=\"SB\"><CODING-REF ID-REF=\"SA\"/></SIGNAL>");
                }
            } else {
                // rewrite every CODING-REF target: signal k -> signal k+1 (cyclically), or itself
                let mut k = 0usize;
                let mut res = String::new();
                let mut rest = out.as_str();
                let selfref = r.chance(1, 3);
                while let Some(i) = rest.find("CODING-REF ") {
                    let (head, tail) = rest.split_at(i);
                    res.push_str(head);
                    if let Some(q) = tail.find("ID-REF=\"") {
                        let st = q + 8;
                        if let Some(e) = tail[st..].find('"') {
                            let target = if selfref { ids[k % ids.len()].clone() } else { ids[(k + 1) % ids.len()].clone() };
                            res.push_str(&tail[..st]);
                            res.push_str(&target);
                            rest = &tail[st + e..];
                            k += 1;
                            continue;
                        }
                    }
                    res.push_str(&tail[..11]);
                    rest = &tail[11..];
                }
                res.push_str(rest);
                out = res;
                // and make sure some SIGNAL-REF points into the cycle
                if let Some(i) = out.find("SIGNAL-REF ") {
                    if let Some(q) = out[i..].find("ID-REF=\"") {
                        let st = i + q + 8;
                        if let Some(e) = out[st..].find('"') {
                            at = st;
                            out.replace_range(st..st + e, &ids[0]);
                        }
                    }
                }
            }
            d = out.into_bytes();
        }
        "nest_element" => {
            // move one complete element (start tag .. matching end tag) inside another element:
            // right behind a start tag or right in front of an end tag elsewhere in the document
            let starts: Vec<usize> = (0..ts.len())
                .filter(|&i| {
                    let inner = &doc[ts[i].0 + 1..ts[i].1 - 1];
                    !(inner.first() == Some(&b'/') || inner.first() == Some(&b'?') || inner.first() == Some(&b'!') || inner.last() == Some(&b'/'))
                })
                .collect();
            if starts.len() > 2 {
                // prefer elements that carry an ID attribute
                let with_id: Vec<usize> = starts.iter().cloned().filter(|&i| doc[ts[i].0..ts[i].1].windows(4).any(|w| w == b"ID=\"")).collect();
                let pool = if !with_id.is_empty() && r.chance(3, 4) { &with_id } else { &starts };
                let i = pool[(sys as usize) % pool.len()];
                let nm = tag_name(doc, ts[i]);
                let mut depth = 0;
                let mut end = ts[i].1;
                for t in &ts[i..] {
                    let inn = &doc[t.0 + 1..t.1 - 1];
                    if tag_name(doc, *t) == nm && inn.last() != Some(&b'/') {
                        if inn.first() == Some(&b'/') {
                            depth -= 1;
                        } else {
                            depth += 1;
                        }
                        if depth == 0 {
                            end = t.1;
                            break;
                        }
                    }
                }
                let seg = doc[ts[i].0..end].to_vec();
                // destination: a tag boundary outside the moved segment
                let dests: Vec<usize> = ts.iter().filter(|t| t.1 <= ts[i].0 || t.0 >= end).map(|t| if r.chance(1, 2) { t.1 } else { t.0 }).collect();
                if !dests.is_empty() {
                    let dest = dests[r.usize_below(dests.len())];
                    at = dest.min(ts[i].0);
                    let mut out = vec![];
                    if dest <= ts[i].0 {
                        out.extend_from_slice(&doc[..dest]);
                        out.extend_from_slice(&seg);
                        if r.chance(1, 2) {
                            out.extend_from_slice(&doc[dest..ts[i].0]);
                            out.extend_from_slice(&doc[end..]);
                        } else {
                            // copy instead of move: the element now occurs twice
                            out.extend_from_slice(&doc[dest..]);
                        }
                    } else {
                        out.extend_from_slice(&doc[..ts[i].0]);
                        out.extend_from_slice(&doc[end..dest]);
                        out.extend_from_slice(&seg);
                        out.extend_from_slice(&doc[dest..]);
                    }
                    d = out;
                }
            }
        }
        "degenerate_markup" => {
            // a comment / CDATA / DOCTYPE / PI of minimal or overlapping form directly behind a tag
            // (also behind the start tag of a text-valued element) or directly in front of one
            if !ts.is_empty() {
                let t = ts[(sys as usize) % ts.len()];
                let pos = if r.chance(2, 3) { t.1 } else { t.0 };
                at = pos;
                let ins: &[u8] = *r.pick(&[&b"<!-->"[..], b"<!--->", b"<!---->", b"<!--> x -->", b"<![CDATA[]]>", b"<![CDATA[>]]>", b"<!DOCTYPE>", b"<!>", b"<?>", b"<??>", b"<!-- -- -->", b"<!--x--!>", b"<![CDATA[x]]]]>"]);
                d.splice(pos..pos, ins.iter().cloned());
            }
        }
        "non_ascii_number" => {
            // a number element whose text is not a number and ends in a multi-byte character,
            // optionally with the file ending right there, optionally behind a byte-order mark
            let text = String::from_utf8_lossy(doc).into_owned();
            let key = *r.pick(&["SEQUENCE-NUMBER>", "BYTE-LENGTH>"]);
            let occ: Vec<usize> = text.match_indices(key).map(|(i, _)| i + key.len()).filter(|&i| text.as_bytes().get(i).map_or(false, |c| c.is_ascii_digit())).collect();
            if !occ.is_empty() {
                let i = occ[(sys as usize) % occ.len()];
                at = i;
                let j = i + text[i..].bytes().position(|c| !c.is_ascii_digit()).unwrap_or(0);
                let rep = *r.pick(&["4ü", "ü", "12€", "7𝄞", "é1", "1 é", "€€€"]);
                d.splice(i..j, rep.bytes());
                match r.below(3) {
                    0 => d.truncate(i + rep.len()), // end of file directly behind the character
                    1 => {
                        let keep = r.usize_below(rep.len()) + 1;
                        d.truncate(i + keep); // possibly in the middle of the character
                    }
                    _ => {}
                }
                if r.chance(1, 3) {
                    let mut n = vec![0xEF, 0xBB, 0xBF];
                    n.extend_from_slice(&d);
                    d = n;
                }
            }
        }
        _ => {
            // duplicate a region: unbalanced / repeated elements
            if d.len() > 8 {
                let a = r.usize_below(d.len() - 4);
                let b = (a + 1 + r.usize_below(200)).min(d.len());
                at = a;
                let seg = d[a..b].to_vec();
                d.splice(b..b, seg);
            }
        }
    }
    (d, name, at)
}
