//! Byte-string input classes shared by the decode-side monitors (C02, C03, C04, C16):
//! canonical (reference-encoded, never via the crate's writer), dialect, structure-aware
//! mutants, truncations, long-field attacks, arbitrary bytes.

use crate::gen_msg::{gen_msg, gen_systematic, GenOpts};
use crate::mutate;
use crate::refcodec::{ref_encode, Encoded};
use crate::rng::Rng;
use dlt_core::dlt::Message;

pub struct Input {
    pub bytes: Vec<u8>,
    /// whether the underlying message (if any) starts with a storage header
    pub wsh: bool,
    pub class: &'static str,
    pub ops: Vec<&'static str>,
    /// the well-formed message the input was derived from
    pub base: Option<Message>,
    pub enc: Option<Encoded>,
}

pub const CLASSES: &[&str] = &["canonical", "dialect", "mutant", "truncated", "long_field", "arbitrary", "header_shaped", "near_max_unterminated", "near_miss_dense", "far_pattern"];

/// A verbose message of (nearly) the largest declarable length made of k equally long string
/// arguments (plus a raw filler), with every string terminator replaced by a letter: the parser
/// returns strings that fill their declared size, the writer adds a terminator to each, so the
/// re-serialised payload is k bytes longer than what the 16-bit length field can express.
fn near_max_unterminated(r: &mut Rng) -> (Message, Encoded, Vec<u8>) {
    use dlt_core::dlt::*;
    let mut o = GenOpts::near_max(r);
    o.force_kind = Some(crate::gen_msg::PKind::Verbose);
    let mut m = gen_msg(r, &o);
    let hdr = crate::refcodec::headers_len(crate::refcodec::htyp_of(&m.header));
    let max_payload = o.max_total - hdr;
    let k = r.range(8, 60) as usize;
    let with_name = r.chance(1, 3);
    let name_len = if with_name { r.range(1, 30) as usize } else { 0 };
    let per_overhead = 4 + 2 + 1 + if with_name { 2 + name_len + 1 } else { 0 };
    let l = (max_payload / k).saturating_sub(per_overhead);
    let mut args = vec![];
    for _ in 0..k {
        let text: String = (0..l).map(|_| (b'a' + r.below(26) as u8) as char).collect();
        args.push(Argument {
            type_info: TypeInfo {
                kind: TypeInfoKind::StringType,
                coding: if r.chance(1, 2) { StringCoding::UTF8 } else { StringCoding::ASCII },
                has_variable_info: with_name,
                has_trace_info: false,
            },
            name: if with_name { Some((0..name_len).map(|_| 'n').collect()) } else { None },
            unit: None,
            fixed_point: None,
            value: Value::StringVal(text),
        });
    }
    let used: usize = args.iter().map(crate::gen_msg::arg_size).sum();
    let left = max_payload - used;
    if left >= 6 && args.len() < 255 {
        args.push(Argument {
            type_info: TypeInfo {
                kind: TypeInfoKind::Raw,
                coding: StringCoding::ASCII,
                has_variable_info: false,
                has_trace_info: false,
            },
            name: None,
            unit: None,
            fixed_point: None,
            value: Value::Raw(r.bytes(left - 6)),
        });
    }
    if let Some(x) = m.extended_header.as_mut() {
        x.argument_count = args.len() as u8;
    }
    m.payload = PayloadContent::Verbose(args);
    m.header.payload_length = crate::gen_msg::payload_size(&m.payload) as u16;
    let e = ref_encode(&m);
    let mut b = e.bytes.clone();
    for f in e.fields.iter().filter(|f| f.label == "arg.value" || f.label == "arg.name") {
        if f.end > f.start && b[f.end - 1] == 0 && (f.label == "arg.value" || r.chance(1, 2)) {
            b[f.end - 1] = b'x';
        }
    }
    (m, e, b)
}

fn base_msg(r: &mut Rng, light: bool, sys: Option<u64>) -> Message {
    if let Some(i) = sys {
        return gen_systematic(r, i).0;
    }
    let mut o = if light || r.chance(3, 4) { GenOpts::small() } else { GenOpts::normal() };
    if light {
        o.max_total = 120;
        o.typical_total = 60;
    }
    gen_msg(r, &o)
}

/// dialect knobs: encodings real ECUs emit that the writer never produces but the layout allows
pub fn apply_dialect(r: &mut Rng, e: &Encoded, b: &mut [u8]) -> Vec<&'static str> {
    let be = b[e.std_start] & 2 != 0;
    let mut ops = vec![];
    let n = r.range(1, 3);
    for _ in 0..n {
        match r.below(7) {
            0 => {
                // reserved / struct bits of a type-info word
                let tis = e.find_all("arg.typeinfo");
                if !tis.is_empty() {
                    let f = tis[r.usize_below(tis.len())];
                    let bit = *r.pick(&[14u32, 18, 19, 23, 24, 30, 31]);
                    let byte = (bit / 8) as usize;
                    let idx = if be { f.end - 1 - byte } else { f.start + byte };
                    b[idx] |= 1 << (bit % 8);
                    ops.push("ti_reserved_bits");
                }
            }
            1 => {
                // TYLE on bool/string/raw (e.g. bool with TYLE=1)
                let tis = e.find_all("arg.typeinfo");
                if !tis.is_empty() {
                    let f = tis[r.usize_below(tis.len())];
                    let idx = if be { f.end - 1 } else { f.start };
                    let kind_bits = (b[idx] >> 4) as u32 | ((b[if be { f.end - 2 } else { f.start + 1 }] as u32 & 7) << 4);
                    // only where TYLE is not significant: bool (bit4) / string (bit9) / raw (bit10)
                    if kind_bits == 0x01 || kind_bits == 0x20 || kind_bits == 0x40 {
                        b[idx] = (b[idx] & 0xF0) | r.below(16) as u8;
                        ops.push("tyle_on_unsized_kind");
                    }
                }
            }
            2 => {
                // string coding bits on any kind
                let tis = e.find_all("arg.typeinfo");
                if !tis.is_empty() {
                    let f = tis[r.usize_below(tis.len())];
                    let v = r.below(8) as u32;
                    // SCOD = bits 15..17: bit 15 in byte 1, bits 16-17 in byte 2
                    let (b1, b2) = if be { (f.end - 2, f.end - 3) } else { (f.start + 1, f.start + 2) };
                    b[b1] = (b[b1] & 0x7F) | (((v & 1) as u8) << 7);
                    b[b2] = (b[b2] & 0xFC) | ((v >> 1) as u8);
                    ops.push("scod_any_kind");
                }
            }
            3 => {
                // ids with embedded NUL or without padding
                let ids: Vec<_> = e.fields.iter().filter(|f| matches!(f.label, "std.ecu" | "ext.apid" | "ext.ctid" | "storage.ecu")).collect();
                if !ids.is_empty() {
                    let f = ids[r.usize_below(ids.len())];
                    match r.below(3) {
                        0 => {
                            let i = f.start + r.usize_below(4);
                            b[i] = 0;
                        }
                        1 => b[f.start..f.end].copy_from_slice(b"ABCD"),
                        _ => b[f.start..f.end].copy_from_slice(&[b'A', 0, b'C', b'D']),
                    }
                    ops.push("id_dialect");
                }
            }
            4 => {
                // string / name / unit without terminator, or with an early NUL
                let fs: Vec<_> = e.fields.iter().filter(|f| matches!(f.label, "arg.name" | "arg.unit") || (f.label == "arg.value" && f.end > f.start)).collect();
                if !fs.is_empty() {
                    let f = fs[r.usize_below(fs.len())];
                    if f.end > f.start {
                        if r.chance(1, 2) {
                            b[f.end - 1] = b'!';
                        } else {
                            let i = f.start + r.usize_below(f.end - f.start);
                            b[i] = 0;
                        }
                        ops.push("terminator_dialect");
                    }
                }
            }
            5 => {
                // FIXP flag on a kind where it carries no meaning (bool/float/string/raw)
                let tis = e.find_all("arg.typeinfo");
                if !tis.is_empty() {
                    let f = tis[r.usize_below(tis.len())];
                    let lo = if be { f.end - 1 } else { f.start };
                    let hi = if be { f.end - 2 } else { f.start + 1 };
                    let kind_bits = (b[lo] >> 4) as u32 | ((b[hi] as u32 & 7) << 4);
                    if kind_bits == 0x01 || kind_bits == 0x08 || kind_bits == 0x20 || kind_bits == 0x40 {
                        b[hi] |= 0x10;
                        ops.push("fixp_on_other_kind");
                    }
                }
            }
            _ => {
                // message counter / version are free
                b[e.std_start + 1] = r.u8();
                b[e.std_start] = (b[e.std_start] & 0x1F) | ((r.below(8) as u8) << 5);
                ops.push("version_counter");
            }
        }
    }
    ops
}

/// one input of the given class (index into CLASSES) or a random class
/// Inputs are handed out as allocations of exactly their size (capacity == length): a read behind the
/// input is then a read behind an allocation, which is what ASan / memcheck / Miri can report.
pub fn gen_input(r: &mut Rng, class: Option<usize>, light: bool, sys: Option<u64>) -> Input {
    let mut i = gen_input_any_capacity(r, class, light, sys);
    i.bytes.shrink_to_fit();
    i
}

fn gen_input_any_capacity(r: &mut Rng, class: Option<usize>, light: bool, sys: Option<u64>) -> Input {
    let c = class.unwrap_or_else(|| if !light && r.chance(1, 80) { 7 } else if r.chance(1, 250) { 8 } else if !light && r.chance(1, 1500) { 9 } else { match r.below(20) {
        0..=3 => 0,
        4..=6 => 1,
        7..=13 => 2,
        14..=15 => 3,
        16 => 4,
        17 => 5,
        _ => 6,
    }});
    match c {
        8 | 9 => {
            // 8: thousands of near misses of the storage-header pattern ("DLT" + another byte, "DL", "D" runs) in
            //    front of (or without) a real message: work or stack depth per near miss shows here
            // 9: the first pattern lies 10-18 MiB into the buffer (also: exactly around the 10 MiB mark)
            let m = base_msg(r, true, None);
            let mut m = m;
            if m.storage_header.is_none() {
                m.storage_header = Some(dlt_core::dlt::StorageHeader { timestamp: dlt_core::dlt::DltTimeStamp { seconds: r.next() as u32, microseconds: (r.next() % 1_000_000) as u32 }, ecu_id: "ECU".into() });
            }
            let e = ref_encode(&m);
            let n = if c == 8 {
                if light { r.range(200, 4000) as usize } else { r.range(20_000, 2_000_000) as usize }
            } else {
                let ten = 10 * 1024 * 1024;
                match r.below(4) {
                    0 => ten - r.range(0, 4) as usize,
                    1 => ten + r.range(0, 40) as usize,
                    _ => r.range(ten as u64, 18 * 1024 * 1024) as usize,
                }
            };
            let mut bytes: Vec<u8> = if c == 8 {
                let unit: &[u8] = match r.below(5) {
                    0 => b"DLT\x02",
                    1 => b"DLT",
                    2 => b"DLT\x00",
                    3 => b"DLTD",
                    _ => b"DLT\x01".split_at(3).0,
                };
                unit.iter().cycle().take(n).cloned().collect()
            } else {
                mutate::gen_regular_junk(r, n)
            };
            // no accidental pattern inside the junk
            let mut i = 0;
            while i + 4 <= bytes.len() {
                if bytes[i..i + 4] == [0x44, 0x4C, 0x54, 0x01] {
                    bytes[i + 3] = 0x02;
                }
                i += 1;
            }
            let with_message = c == 9 || r.chance(2, 3);
            if with_message {
                // the junk must not end in a way that forms the pattern together with the message start
                if let Some(l) = bytes.last_mut() {
                    *l = 0x7e;
                }
                bytes.extend_from_slice(&e.bytes);
                let t = r.size(4, 20);
                bytes.extend(r.bytes(t));
            }
            Input {
                bytes,
                wsh: true,
                class: if c == 8 { "near_miss_dense" } else { "far_pattern" },
                ops: vec![],
                base: None,
                enc: None,
            }
        }
        7 => {
            let (m, e, bytes) = near_max_unterminated(r);
            Input {
                wsh: m.storage_header.is_some(),
                bytes,
                class: "near_max_unterminated",
                ops: vec![],
                base: Some(m),
                enc: Some(e),
            }
        }
        5 => {
            let n = r.size(24, if light { 64 } else { 600 });
            let mut bytes = r.bytes(n);
            if r.chance(1, 3) && bytes.len() >= 4 {
                let at = r.usize_below(bytes.len() - 3);
                bytes[at..at + 4].copy_from_slice(&[0x44, 0x4C, 0x54, 0x01]);
            }
            Input {
                bytes,
                wsh: r.chance(1, 2),
                class: "arbitrary",
                ops: vec![],
                base: None,
                enc: None,
            }
        }
        6 => {
            // plausible header followed by arbitrary bytes: gets past the header checks
            let htyp = r.u8();
            let n = r.size(24, if light { 64 } else { 400 });
            let body = r.bytes(n);
            let hl = crate::refcodec::headers_len(htyp);
            let total = match r.below(4) {
                0 => hl + n,
                1 => (hl + n).saturating_sub(r.usize_below(6)),
                2 => hl + r.usize_below(n + 1),
                _ => r.usize_below(hl + n + 8),
            }
            .min(65535);
            let wsh = r.chance(1, 2);
            let mut bytes = vec![];
            if wsh {
                bytes.extend_from_slice(&[0x44, 0x4C, 0x54, 0x01]);
                bytes.extend(r.bytes(12));
            }
            bytes.extend_from_slice(&[htyp, r.u8(), (total >> 8) as u8, total as u8]);
            let mut rest = vec![0u8; hl - 4];
            for x in rest.iter_mut() {
                *x = if r.chance(1, 2) { r.u8() } else { *r.pick(b"AB\0 \xC3") };
            }
            bytes.extend_from_slice(&rest);
            bytes.extend_from_slice(&body);
            Input {
                bytes,
                wsh,
                class: "header_shaped",
                ops: vec![],
                base: None,
                enc: None,
            }
        }
        _ => {
            let m = base_msg(r, light, sys);
            let e = ref_encode(&m);
            let wsh = m.storage_header.is_some();
            let (bytes, class, ops): (Vec<u8>, &'static str, Vec<&'static str>) = match c {
                0 => {
                    let mut b = e.bytes.clone();
                    if r.chance(1, 2) {
                        let n = r.size(6, 30);
                        b.extend(r.bytes(n));
                    }
                    (b, "canonical", vec![])
                }
                1 => {
                    let mut b = e.bytes.clone();
                    let ops = apply_dialect(r, &e, &mut b);
                    if r.chance(1, 2) {
                        let n = r.size(6, 30);
                        b.extend(r.bytes(n));
                    }
                    (b, "dialect", ops)
                }
                2 => {
                    let (b, ops) = mutate::mutant(r, &e, light);
                    (b, "mutant", ops)
                }
                3 => {
                    let n = r.usize_below(e.bytes.len() + 1);
                    (e.bytes[..n].to_vec(), "truncated", vec![])
                }
                _ => match mutate::long_field_attack(r, &e, light) {
                    Some(b) => (b, "long_field", vec![]),
                    None => {
                        let (b, ops) = mutate::mutant(r, &e, light);
                        (b, "mutant", ops)
                    }
                },
            };
            Input {
                bytes,
                wsh,
                class,
                ops,
                base: Some(m),
                enc: Some(e),
            }
        }
    }
}
