//! Worker context: per-case rng, panic capture, violation log, distinct-shape set,
//! observation counters, samples, crash-attribution status slot, shard summary.

use crate::json::J;
use crate::rng::Rng;
use std::cell::RefCell;
use std::collections::hash_map::DefaultHasher;
use std::collections::{BTreeMap, HashMap, HashSet};
use std::hash::{Hash, Hasher};
use std::io::Write;
use std::panic::{catch_unwind, AssertUnwindSafe};

#[derive(Clone, Copy, PartialEq, Eq, Debug)]
pub enum Tier {
    Quick,
    Thorough,
}

#[derive(Clone, Copy, PartialEq, Eq, Debug)]
pub enum Engine {
    /// optimised + overflow checks + debug assertions
    Checked,
    /// plain --release (wrapping arithmetic)
    Release,
    Asan,
    Miri,
    Memcheck,
}

impl Engine {
    pub fn parse(s: &str) -> Option<Engine> {
        Some(match s {
            "checked" => Engine::Checked,
            "release" => Engine::Release,
            "asan" => Engine::Asan,
            "miri" => Engine::Miri,
            "memcheck" => Engine::Memcheck,
            _ => return None,
        })
    }
    pub fn name(self) -> &'static str {
        match self {
            Engine::Checked => "checked",
            Engine::Release => "release",
            Engine::Asan => "asan",
            Engine::Miri => "miri",
            Engine::Memcheck => "memcheck",
        }
    }
}

// ---------------------------------------------------------------- panic capture

#[derive(Clone, Debug)]
pub struct Panic {
    pub msg: String,
    /// file:line of the panic site
    pub loc: String,
}

thread_local! {
    static LAST_PANIC: RefCell<Option<Panic>> = const { RefCell::new(None) };
    static GUARD_DEPTH: std::cell::Cell<u32> = const { std::cell::Cell::new(0) };
}

pub fn install_panic_hook() {
    std::panic::set_hook(Box::new(|info| {
        let msg = if let Some(s) = info.payload().downcast_ref::<&str>() {
            s.to_string()
        } else if let Some(s) = info.payload().downcast_ref::<String>() {
            s.clone()
        } else {
            "<non-string panic payload>".to_string()
        };
        let loc = info
            .location()
            .map(|l| format!("{}:{}", shorten_path(l.file()), l.line()))
            .unwrap_or_else(|| "?".into());
        if GUARD_DEPTH.with(|d| d.get()) == 0 {
            // a panic outside any guarded crate call is a bug in the harness: say so loudly
            eprintln!("dltmon: harness panic at {}: {}", loc, msg);
        }
        LAST_PANIC.with(|p| *p.borrow_mut() = Some(Panic { msg, loc }));
    }));
}

/// keep the path stable across checkouts: cut everything before `src/` for crate files,
/// and the registry prefix for dependencies.
fn shorten_path(p: &str) -> String {
    if let Some(i) = p.find("/registry/src/") {
        let rest = &p[i + "/registry/src/".len()..];
        if let Some(j) = rest.find('/') {
            return format!("dep:{}", &rest[j + 1..]);
        }
    }
    if let Some(i) = p.find("/library/") {
        return format!("std:{}", &p[i + "/library/".len()..]);
    }
    if p.contains("harness/src/") || p.starts_with("src/mon") {
        return format!("harness:{}", p.rsplit("src/").next().unwrap_or(p));
    }
    if let Some(i) = p.rfind("src/") {
        return p[i..].to_string();
    }
    p.to_string()
}

/// Run `f`, which must contain exactly the call(s) into the crate; a panic is captured
/// (message + location) instead of unwinding through the monitor.
pub fn guarded<T>(f: impl FnOnce() -> T) -> Result<T, Panic> {
    GUARD_DEPTH.with(|d| d.set(d.get() + 1));
    let r = catch_unwind(AssertUnwindSafe(f));
    GUARD_DEPTH.with(|d| d.set(d.get().saturating_sub(1)));
    match r {
        Ok(v) => Ok(v),
        Err(_) => Err(LAST_PANIC
            .with(|p| p.borrow_mut().take())
            .unwrap_or(Panic {
                msg: "<unknown panic>".into(),
                loc: "?".into(),
            })),
    }
}

impl Panic {
    /// true when the panic site is inside the harness (a harness bug, not a finding)
    pub fn in_harness(&self) -> bool {
        self.loc.starts_with("harness:")
    }
}

// ---------------------------------------------------------------- violations

#[derive(Clone, Debug)]
pub struct Violation {
    pub clause: String,
    pub discr: String,
    pub index: u64,
    pub count: u64,
    pub detail: J,
}

/// case currently executed by the worker's main thread (read by the progress watchdog)
pub static CURRENT_CASE: std::sync::atomic::AtomicU64 = std::sync::atomic::AtomicU64::new(u64::MAX);
pub static CURRENT_SUBSTEP: std::sync::atomic::AtomicU64 = std::sync::atomic::AtomicU64::new(0);

/// Progress watchdog for every monitor: a single case takes milliseconds (the heaviest ones a few
/// seconds); when the main thread has burnt `bound_s` seconds of *thread CPU time* inside one case,
/// some call into the crate does not return. The watchdog writes a witness (`hang-<engine>-<shard>.json`)
/// and ends the worker with exit code 17; the driver reports it and restarts the shard behind that case.
/// CPU time, not wall-clock time: an overloaded machine cannot trip it.
/// CPU time the thread spent in USER mode, in nanoseconds (`utime` of /proc/<pid>/task/<tid>/stat, USER_HZ = 100).
/// Deliberately not the scheduler's on-CPU time (`schedstat`): in a virtual machine whose memory is backed lazily
/// (a sandbox restored from a snapshot) the first touch of a page can stall for milliseconds inside the guest
/// kernel's page-fault path, and a case that allocates a few hundred MiB was once observed to "use" 90 s of on-CPU
/// time that way while it takes 0.3 s. Such stalls are kernel time; a call that spins in the crate burns user time.
pub fn thread_user_cpu_ns(task_path: &str) -> Option<u64> {
    let s = std::fs::read_to_string(format!("/proc/{}/stat", task_path)).ok()?;
    let rest = &s[s.rfind(')')? + 1..];
    let utime_ticks: u64 = rest.split_whitespace().nth(11)?.parse().ok()?;
    Some(utime_ticks * 10_000_000)
}

pub fn start_progress_watchdog(prop: &'static str, seed: u64, engine: Engine, shard: u64, out_dir: Option<String>, bound_s: f64, eof_bound: Option<u64>) {
    let task = match std::fs::read_link("/proc/thread-self") {
        Ok(p) => p.to_string_lossy().into_owned(),
        Err(_) => return,
    };
    std::thread::spawn(move || {
        use std::sync::atomic::Ordering::SeqCst;
        let cpu = |t: &str| -> Option<u64> { thread_user_cpu_ns(t) };
        let mut seen: Option<(u64, u64)> = None; // (case, cpu at first sight)
        let mut eof_seen: u64 = 0; // FIBEX end-of-file events delivered when the case was first seen
        // a call that *sleeps* (retry loops with back-off, waiting for something that never comes) burns no CPU:
        // it shows as scheduler state S (voluntarily blocked) with a CPU clock that stands still. A thread that is
        // merely starved by a loaded machine is in state R, one waiting for the disk in state D - neither counts.
        let state = |t: &str| -> Option<char> {
            let s = std::fs::read_to_string(format!("/proc/{}/stat", t)).ok()?;
            s[s.rfind(')')? + 1..].trim_start().chars().next()
        };
        let mut blocked: Option<(std::time::Instant, u64, u64)> = None; // (case first seen, samples asleep, samples)
        loop {
            std::thread::sleep(std::time::Duration::from_millis(200));
            let case = CURRENT_CASE.load(SeqCst);
            if case == u64::MAX {
                seen = None;
                continue;
            }
            let now = match cpu(&task) {
                Some(x) => x,
                None => return,
            };
            let eof_now = dlt_core::verif_hooks::FIBEX_EOF_RETURNS.load(std::sync::atomic::Ordering::Relaxed);
            match seen {
                Some((c, _)) if c == case => {}
                _ => {
                    seen = Some((case, now));
                    eof_seen = eof_now;
                    blocked = None;
                }
            }
            let used = (now - seen.unwrap().1) as f64 / 1e9;
            // native engines only: valgrind serialises threads (the main thread waits for valgrind's lock whenever this
            // thread runs, i.e. at every sample) and the interpreter samples its own carrier thread
            if matches!(engine, Engine::Checked | Engine::Release | Engine::Asan) {
                if let Some((since, asleep, total)) = blocked.as_mut() {
                    *total += 1;
                    if state(&task) == Some('S') {
                        *asleep += 1;
                    }
                    let el = since.elapsed().as_secs_f64();
                    if el > BLOCKED_BOUND_S && *asleep * 2 > *total {
                        let j = J::obj()
                            .set("prop", prop)
                            .set("seed", seed)
                            .set("index", case)
                            .set("sub", CURRENT_SUBSTEP.load(SeqCst))
                            .set("reason", "case_asleep_instead_of_returning")
                            .set("elapsed_s", format!("{:.0}", el))
                            .set("samples_asleep", *asleep)
                            .set("samples", *total)
                            .set("thread_cpu_s", format!("{:.1}", used))
                            .set("bound_s", format!("{:.0}", BLOCKED_BOUND_S))
                            .set("what", "during one case the worker's main thread was asleep (scheduler state S) at most samples for longer than the bound: a call into the crate waits or retries with back-off instead of returning");
                        match &out_dir {
                            Some(d) => {
                                let _ = std::fs::write(format!("{}/hang-{}-{}.json", d, engine.name(), shard), j.to_string());
                            }
                            None => println!("  violated clause=bounded_progress discr=case_asleep_instead_of_returning detail={}", j.to_string()),
                        }
                        std::process::exit(17);
                    }
                } else {
                    blocked = Some((std::time::Instant::now(), 0u64, 0u64));
                }
            }
            // a logical measure next to the CPU time: a loader that sleeps between retries burns no CPU,
            // but it is handed end-of-file again and again (hook counter in the crate, feature verif-hooks)
            let eof_exceeded = eof_bound.map_or(false, |b| eof_now - eof_seen > b);
            if eof_exceeded {
                let j = J::obj()
                    .set("prop", prop)
                    .set("seed", seed)
                    .set("index", case)
                    .set("sub", CURRENT_SUBSTEP.load(SeqCst))
                    .set("reason", "eof_returned_again_and_again")
                    .set("eof_returns_during_case", eof_now - eof_seen)
                    .set("bound", eof_bound.unwrap_or(0))
                    .set("what", "the FIBEX loader was handed end-of-file far more often during one case than its files can account for: it reads them again and again");
                match &out_dir {
                    Some(d) => {
                        let _ = std::fs::write(format!("{}/hang-{}-{}.json", d, engine.name(), shard), j.to_string());
                    }
                    None => println!("  violated clause=bounded_progress discr=eof_returned_again_and_again detail={}", j.to_string()),
                }
                std::process::exit(17);
            }
            if used > bound_s {
                let sub = CURRENT_SUBSTEP.load(SeqCst);
                let j = J::obj()
                    .set("prop", prop)
                    .set("seed", seed)
                    .set("index", case)
                    .set("sub", sub)
                    .set("reason", "case_cpu_time_bound")
                    .set("thread_cpu_s", format!("{:.1}", used))
                    .set("bound_s", format!("{:.0}", bound_s))
                    .set("what", "one case kept the worker's main thread busy in user mode for longer than the bound: a call into the crate does not return");
                match &out_dir {
                    Some(d) => {
                        let _ = std::fs::write(format!("{}/hang-{}-{}.json", d, engine.name(), shard), j.to_string());
                    }
                    None => println!("  violated clause=bounded_progress discr=case_cpu_time_bound detail={}", j.to_string()),
                }
                std::process::exit(17);
            }
        }
    });
}

/// seconds a case may leave the main thread asleep without using CPU (see the progress watchdog)
pub const BLOCKED_BOUND_S: f64 = 90.0;
pub const MAX_SIGNATURES: usize = 60;
pub const MAX_SHAPES: usize = 6_000_000;
pub const MAX_SAMPLES: usize = 4;

pub struct Ctx {
    pub prop: &'static str,
    pub seed: u64,
    pub tier: Tier,
    pub engine: Engine,
    pub shard: u64,
    pub nshards: u64,
    /// index of the case being run
    pub index: u64,
    pub rng: Rng,
    pub logger_on: bool,
    pub out_dir: Option<String>,
    // --- accumulated
    pub evaluations: u64,
    pub cases: u64,
    shapes: HashSet<u64>,
    shapes_capped: bool,
    pub nontrivial_total: u64,
    observed: HashMap<&'static str, u64>,
    observed_dyn: BTreeMap<String, u64>,
    violations: Vec<Violation>,
    sig_index: HashMap<String, usize>,
    pub dropped_signatures: u64,
    samples: Vec<J>,
    inconclusive: Vec<String>,
    harness_errors: Vec<String>,
    status: Option<std::fs::File>,
    /// replay mode: print every violation in full
    pub replaying: bool,
}

impl Ctx {
    pub fn new(
        prop: &'static str,
        seed: u64,
        tier: Tier,
        engine: Engine,
        shard: u64,
        nshards: u64,
        out_dir: Option<String>,
    ) -> Ctx {
        let status = out_dir.as_ref().and_then(|d| {
            std::fs::OpenOptions::new()
                .create(true)
                .write(true)
                .truncate(true)
                .open(format!("{}/status-{}-{}", d, engine.name(), shard))
                .ok()
        });
        Ctx {
            prop,
            seed,
            tier,
            engine,
            shard,
            nshards,
            index: 0,
            rng: Rng::new(0),
            logger_on: false,
            out_dir,
            evaluations: 0,
            cases: 0,
            shapes: HashSet::new(),
            shapes_capped: false,
            nontrivial_total: 0,
            observed: HashMap::new(),
            observed_dyn: BTreeMap::new(),
            violations: vec![],
            sig_index: HashMap::new(),
            dropped_signatures: 0,
            samples: vec![],
            inconclusive: vec![],
            harness_errors: vec![],
            status,
            replaying: false,
        }
    }

    /// interpreters and valgrind are 25x-10^4x slower: monitors shrink their inputs
    pub fn light(&self) -> bool {
        matches!(self.engine, Engine::Miri | Engine::Memcheck)
    }
    pub fn miri(&self) -> bool {
        self.engine == Engine::Miri
    }
    /// a memory-error detector is watching: inputs are handed over as allocations of exactly their size, so
    /// that a read behind the input is a read behind an allocation (the only kind a red-zone tool can see)
    pub fn sanitized(&self) -> bool {
        matches!(self.engine, Engine::Miri | Engine::Memcheck | Engine::Asan)
    }
    pub fn thorough(&self) -> bool {
        self.tier == Tier::Thorough
    }

    pub fn begin_case(&mut self, index: u64) {
        CURRENT_CASE.store(index, std::sync::atomic::Ordering::SeqCst);
        self.index = index;
        self.rng = Rng::for_case(self.seed, self.prop, index);
        self.cases += 1;
        self.mark(0);
    }

    /// record "about to call into the crate" (case index + sub-step) in the status slot,
    /// so that an abort (sanitizer, stack overflow) is attributable to a concrete case.
    pub fn mark(&mut self, substep: u32) {
        CURRENT_SUBSTEP.store(substep as u64, std::sync::atomic::Ordering::Relaxed);
        if let Some(f) = &self.status {
            use std::os::unix::fs::FileExt;
            let s = format!(
                "{} {} {} {} running\n",
                self.prop, self.seed, self.index, substep
            );
            let mut buf = [b' '; 96];
            let n = s.len().min(95);
            buf[..n].copy_from_slice(&s.as_bytes()[..n]);
            buf[95] = b'\n';
            let _ = f.write_at(&buf, 0);
        }
    }

    pub fn mark_done(&mut self) {
        CURRENT_CASE.store(u64::MAX, std::sync::atomic::Ordering::SeqCst);
        if let Some(f) = &self.status {
            use std::os::unix::fs::FileExt;
            let mut buf = [b' '; 96];
            let s = format!("{} {} {} 0 done\n", self.prop, self.seed, self.index);
            let n = s.len().min(95);
            buf[..n].copy_from_slice(&s.as_bytes()[..n]);
            buf[95] = b'\n';
            let _ = f.write_at(&buf, 0);
        }
    }

    pub fn eval(&mut self) {
        self.evaluations += 1;
    }
    pub fn evals(&mut self, n: u64) {
        self.evaluations += n;
    }

    /// register the shape signature of a case; only non-trivial ones are counted as distinct
    pub fn shape<H: Hash>(&mut self, h: &H, nontrivial: bool) {
        if !nontrivial {
            return;
        }
        self.nontrivial_total += 1;
        if self.shapes.len() >= MAX_SHAPES {
            self.shapes_capped = true;
            return;
        }
        let mut s = DefaultHasher::new();
        h.hash(&mut s);
        self.shapes.insert(s.finish());
    }

    pub fn obs(&mut self, key: &'static str) {
        *self.observed.entry(key).or_insert(0) += 1;
    }
    pub fn obs_n(&mut self, key: &'static str, n: u64) {
        *self.observed.entry(key).or_insert(0) += n;
    }
    pub fn obs_dyn(&mut self, key: String) {
        *self.observed_dyn.entry(key).or_insert(0) += 1;
    }
    pub fn obs_dyn_n(&mut self, key: String, n: u64) {
        *self.observed_dyn.entry(key).or_insert(0) += n;
    }

    pub fn violation(&mut self, clause: &str, discr: &str, detail: impl FnOnce() -> J) {
        let sig = format!("{}:{}:{}", self.prop, clause, discr);
        if let Some(&i) = self.sig_index.get(&sig) {
            self.violations[i].count += 1;
            return;
        }
        if self.violations.len() >= MAX_SIGNATURES {
            self.dropped_signatures += 1;
            return;
        }
        let d = detail();
        if self.replaying {
            println!("  violated clause={} discr={} detail={}", clause, discr, d.to_string());
        }
        self.sig_index.insert(sig, self.violations.len());
        self.violations.push(Violation {
            clause: clause.to_string(),
            discr: discr.to_string(),
            index: self.index,
            count: 1,
            detail: d,
        });
    }

    /// a panic inside a crate call: violation unless it originates in the harness itself
    pub fn panic_violation(&mut self, clause: &str, p: &Panic, detail: impl FnOnce() -> J) {
        if p.msg.starts_with(crate::iosched::EOF_IGNORED_MARK) {
            // raised by the scripted source, not by the crate: the reader kept reading after end-of-stream
            let msg = p.msg.clone();
            self.violation("bounded_progress.end_of_stream_ignored", clause, || detail().set("what", crate::json::trunc(&msg, 300)));
            return;
        }
        if p.in_harness() {
            self.harness_error(format!("harness panic at {}: {}", p.loc, p.msg));
            return;
        }
        let discr = format!("panic@{}", p.loc);
        let msg = p.msg.clone();
        self.violation(clause, &discr, || detail().set("panic", crate::json::trunc(&msg, 300)));
    }

    pub fn sample(&mut self, f: impl FnOnce() -> J) {
        if self.samples.len() < MAX_SAMPLES {
            // spread the samples over the run: 1st, then cases 7, 77, 777 ...
            let want = match self.samples.len() {
                0 => true,
                1 => self.cases >= 7,
                2 => self.cases >= 77,
                _ => self.cases >= 777,
            };
            if want {
                self.samples.push(f());
            }
        }
    }

    pub fn inconclusive(&mut self, reason: String) {
        if self.inconclusive.len() < 20 && !self.inconclusive.contains(&reason) {
            self.inconclusive.push(reason);
        }
    }
    pub fn harness_error(&mut self, reason: String) {
        if self.replaying {
            println!("  harness-error {}", reason);
        }
        if self.harness_errors.len() < 20 && !self.harness_errors.contains(&reason) {
            self.harness_errors.push(reason);
        }
    }

    pub fn violation_count(&self) -> usize {
        self.violations.len()
    }
    pub fn has_harness_errors(&self) -> bool {
        !self.harness_errors.is_empty()
    }

    /// write shard summary + shapes file
    pub fn write_summary(
        &mut self,
        start: u64,
        ops: u64,
        wall_s: f64,
        describe: J,
    ) -> std::io::Result<()> {
        let dir = match &self.out_dir {
            Some(d) => d.clone(),
            None => return Ok(()),
        };
        let tag = format!("{}-{}", self.engine.name(), self.shard);
        // shapes
        let shapes_path = format!("{}/shapes-{}.bin", dir, tag);
        {
            let mut f = std::io::BufWriter::new(std::fs::File::create(&shapes_path)?);
            for h in &self.shapes {
                f.write_all(&h.to_le_bytes())?;
            }
            f.flush()?;
        }
        let mut observed = self.observed_dyn.clone();
        for (k, v) in &self.observed {
            *observed.entry(k.to_string()).or_insert(0) += v;
        }
        let viol: Vec<J> = self
            .violations
            .iter()
            .map(|v| {
                J::obj()
                    .set("signature", format!("{}:{}:{}", self.prop, v.clause, v.discr))
                    .set("clause", &v.clause[..])
                    .set("discr", &v.discr[..])
                    .set("index", v.index)
                    .set("count", v.count)
                    .set("detail", v.detail.clone())
            })
            .collect();
        let j = J::obj()
            .set("prop", self.prop)
            .set("engine", self.engine.name())
            .set("tier", if self.tier == Tier::Quick { "quick" } else { "thorough" })
            .set("seed", self.seed)
            .set("shard", self.shard)
            .set("nshards", self.nshards)
            .set("start", start)
            .set("ops", ops)
            .set("logger", self.logger_on)
            .set("cases", self.cases)
            .set("evaluations", self.evaluations)
            .set("nontrivial_total", self.nontrivial_total)
            .set("shapes_count", self.shapes.len())
            .set("shapes_capped", self.shapes_capped)
            .set("shapes_file", shapes_path)
            .set("observed", &observed)
            .set("violations", J::Arr(viol))
            .set("dropped_signatures", self.dropped_signatures)
            .set("samples", J::Arr(self.samples.clone()))
            .set(
                "inconclusive",
                J::Arr(self.inconclusive.iter().map(|s| J::Str(s.clone())).collect()),
            )
            .set(
                "harness_errors",
                J::Arr(self.harness_errors.iter().map(|s| J::Str(s.clone())).collect()),
            )
            .set("describe", describe)
            .set("wall_s", J::Str(format!("{:.3}", wall_s)));
        let tmp = format!("{}/summary-{}.json.tmp", dir, tag);
        std::fs::write(&tmp, j.to_string())?;
        std::fs::rename(&tmp, format!("{}/summary-{}.json", dir, tag))?;
        Ok(())
    }
}

/// A monitor = workload generator + oracle for one property.
pub trait Monitor {
    /// run case `ctx.index` (ctx.rng is already seeded for it)
    fn case(&mut self, ctx: &mut Ctx);
    /// called once after the last case of the shard
    fn finish(&mut self, _ctx: &mut Ctx) {}
    /// static description for the evidence file: rule, assumptions, min_events, exhaustive space
    fn describe(&self, ctx: &Ctx) -> J;
}

// ---------------------------------------------------------------- logger that evaluates all arguments

pub struct SinkLogger;
pub static LOG_RECORDS: std::sync::atomic::AtomicU64 = std::sync::atomic::AtomicU64::new(0);
pub static LOG_BYTES: std::sync::atomic::AtomicU64 = std::sync::atomic::AtomicU64::new(0);

struct CountingSink(u64);
impl std::fmt::Write for CountingSink {
    fn write_str(&mut self, s: &str) -> std::fmt::Result {
        self.0 += s.len() as u64;
        Ok(())
    }
}

impl log::Log for SinkLogger {
    fn enabled(&self, _: &log::Metadata) -> bool {
        true
    }
    fn log(&self, record: &log::Record) {
        use std::fmt::Write;
        use std::sync::atomic::Ordering::Relaxed;
        // formatting evaluates every argument expression of the crate's log macros
        let mut sink = CountingSink(0);
        let _ = write!(sink, "{}", record.args());
        LOG_RECORDS.fetch_add(1, Relaxed);
        LOG_BYTES.fetch_add(sink.0, Relaxed);
    }
    fn flush(&self) {}
}

pub fn install_logger() {
    static L: SinkLogger = SinkLogger;
    let _ = log::set_logger(&L);
    log::set_max_level(log::LevelFilter::Trace);
}
