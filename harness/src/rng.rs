//! Deterministic randomness. Every random choice in the harness derives from
//! (VERIF_SEED, property id, case index) through splitmix64 -> xoshiro256**.

#[derive(Clone)]
pub struct Rng {
    s: [u64; 4],
}

pub fn splitmix(x: &mut u64) -> u64 {
    *x = x.wrapping_add(0x9E37_79B9_7F4A_7C15);
    let mut z = *x;
    z = (z ^ (z >> 30)).wrapping_mul(0xBF58_476D_1CE4_E5B9);
    z = (z ^ (z >> 27)).wrapping_mul(0x94D0_49BB_1331_11EB);
    z ^ (z >> 31)
}

/// stable 64-bit hash of a byte string (FNV-1a folded through splitmix)
pub fn hash_bytes(b: &[u8]) -> u64 {
    let mut h: u64 = 0xcbf2_9ce4_8422_2325;
    for &x in b {
        h ^= x as u64;
        h = h.wrapping_mul(0x0000_0100_0000_01B3);
    }
    let mut s = h;
    splitmix(&mut s)
}

impl Rng {
    pub fn new(seed: u64) -> Self {
        let mut x = seed;
        let s = [
            splitmix(&mut x),
            splitmix(&mut x),
            splitmix(&mut x),
            splitmix(&mut x),
        ];
        Rng { s }
    }
    /// rng for one case: independent of every other case
    pub fn for_case(seed: u64, prop: &str, index: u64) -> Self {
        let mut x = seed ^ hash_bytes(prop.as_bytes());
        let a = splitmix(&mut x);
        let mut y = a ^ index.wrapping_mul(0xD6E8_FEB8_6659_FD93);
        Rng::new(splitmix(&mut y))
    }
    pub fn next(&mut self) -> u64 {
        let r = self.s[1].wrapping_mul(5).rotate_left(7).wrapping_mul(9);
        let t = self.s[1] << 17;
        self.s[2] ^= self.s[0];
        self.s[3] ^= self.s[1];
        self.s[1] ^= self.s[2];
        self.s[0] ^= self.s[3];
        self.s[2] ^= t;
        self.s[3] = self.s[3].rotate_left(45);
        r
    }
    /// uniform in 0..k (k = 0 gives 0)
    pub fn below(&mut self, k: u64) -> u64 {
        if k == 0 {
            0
        } else {
            self.next() % k
        }
    }
    pub fn usize_below(&mut self, k: usize) -> usize {
        self.below(k as u64) as usize
    }
    /// inclusive range
    pub fn range(&mut self, lo: u64, hi: u64) -> u64 {
        lo + self.below(hi - lo + 1)
    }
    /// true with probability num/den
    pub fn chance(&mut self, num: u64, den: u64) -> bool {
        self.below(den) < num
    }
    pub fn pick<'a, T>(&mut self, v: &'a [T]) -> &'a T {
        &v[self.usize_below(v.len())]
    }
    pub fn u8(&mut self) -> u8 {
        self.next() as u8
    }
    pub fn u16(&mut self) -> u16 {
        self.next() as u16
    }
    pub fn u32(&mut self) -> u32 {
        self.next() as u32
    }
    pub fn bytes(&mut self, n: usize) -> Vec<u8> {
        let mut v = Vec::with_capacity(n);
        while v.len() < n {
            let x = self.next().to_le_bytes();
            let k = (n - v.len()).min(8);
            v.extend_from_slice(&x[..k]);
        }
        v
    }
    /// random bytes; 1 in 12 carries the storage-header pattern (or a prefix of it) somewhere inside
    pub fn bytes_magic(&mut self, n: usize) -> Vec<u8> {
        let mut v = self.bytes(n);
        if n >= 1 && self.chance(1, 12) {
            let pat = [0x44u8, 0x4C, 0x54, 0x01];
            let k = (1 + self.usize_below(4)).min(n);
            let at = match self.below(3) {
                0 => 0,
                1 => n - k,
                _ => self.usize_below(n - k + 1),
            };
            v[at..at + k].copy_from_slice(&pat[..k]);
        }
        v
    }
    pub fn shuffle<T>(&mut self, v: &mut [T]) {
        for i in (1..v.len()).rev() {
            let j = self.usize_below(i + 1);
            v.swap(i, j);
        }
    }
    /// geometric-ish small size: mostly small, occasionally up to `max`
    pub fn size(&mut self, typical: usize, max: usize) -> usize {
        let v = match self.below(16) {
            0 => 0,
            1..=11 => self.usize_below(typical + 1),
            12..=14 => self.usize_below((typical * 8).min(max) + 1),
            _ => self.usize_below(max + 1),
        };
        v.min(max)
    }
    /// "interesting" 64-bit patterns: boundaries first, then random
    pub fn special64(&mut self) -> u64 {
        match self.below(14) {
            // the storage-header pattern "DLT\x01" as a little- / big-endian 32-bit field value
            12 => 0x0154_4C44,
            13 => 0x444C_5401,
            0 => 0,
            1 => u64::MAX,
            2 => 1u64 << 63,
            3 => (1u64 << 63) - 1,
            4 => self.below(300),
            5 => (self.below(300) as i64).wrapping_neg() as u64,
            6 => 1u64 << self.below(64),
            7 => (1u64 << self.below(64)).wrapping_sub(1),
            8 => 0x7f,
            9 => 0x80,
            _ => self.next(),
        }
    }
}
