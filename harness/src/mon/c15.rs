//! C15 — computed lengths equal serialised lengths; built messages are self-consistent.
//!
//! Clauses: (a) Argument::len == as_bytes::<BE>().len() == as_bytes::<LE>().len() (== reference);
//! (b) Message::new(conf, sh) for any configuration that fits 65535: payload_length = reference
//! payload size, byte_len = as_bytes().len() - 16*[sh], verbose flag and argument count as the
//! payload kind requires; (c) representable configurations parse back bit-exactly;
//! (d) add_storage_header prepends exactly 16 reference bytes; (e) valid() is false for
//! bool/f32/f64-typed arguments carrying any other value variant.

use crate::ctx::{guarded, Ctx, Monitor};
use crate::gen_msg::{arg_size, arg_wellformed, gen_arg, gen_id, gen_msg, payload_size, GenOpts};
use crate::json::{hex_trunc, J};
use crate::refcodec::{self, diff_msg, kind_name, mtype_of, payload_kind, show_msg};
use dlt_core::dlt::*;
use dlt_core::parse::{dlt_message, ParsedMessage};

#[derive(Default)]
pub struct M {}

fn all_value_variants() -> Vec<(Value, &'static str)> {
    vec![
        (Value::Bool(1), "Bool"),
        (Value::U8(1), "U8"),
        (Value::U16(1), "U16"),
        (Value::U32(1), "U32"),
        (Value::U64(1), "U64"),
        (Value::U128(1), "U128"),
        (Value::I8(1), "I8"),
        (Value::I16(1), "I16"),
        (Value::I32(1), "I32"),
        (Value::I64(1), "I64"),
        (Value::I128(1), "I128"),
        (Value::F32(1.0), "F32"),
        (Value::F64(1.0), "F64"),
        (Value::StringVal("s".into()), "String"),
        (Value::Raw(vec![1]), "Raw"),
    ]
}

fn check_valid_clause(ctx: &mut Ctx) {
    let kinds = [
        (TypeInfoKind::Bool, "Bool"),
        (TypeInfoKind::Float(FloatWidth::Width32), "F32"),
        (TypeInfoKind::Float(FloatWidth::Width64), "F64"),
    ];
    for (k, matching) in kinds.iter() {
        for (v, vname) in all_value_variants() {
            ctx.eval();
            let a = Argument {
                type_info: TypeInfo {
                    kind: k.clone(),
                    coding: StringCoding::ASCII,
                    has_variable_info: false,
                    has_trace_info: false,
                },
                name: None,
                unit: None,
                fixed_point: None,
                value: v,
            };
            let want = vname == *matching;
            ctx.shape(&("valid", kind_name(k), vname), true);
            match guarded(|| a.valid()) {
                Err(p) => ctx.panic_violation("valid.no_panic", &p, || J::obj().set("argument", format!("{:?}", a))),
                Ok(got) if got == want => ctx.obs("valid.ok"),
                Ok(got) => ctx.violation("valid.mismatching_value_fails", &format!("{}:{}", kind_name(k), vname), || {
                    J::obj().set("argument", format!("{:?}", a)).set("valid", got).set("expected", want)
                }),
            }
        }
    }
}

impl Monitor for M {
    fn case(&mut self, ctx: &mut Ctx) {
        let light = ctx.light();
        if ctx.index % 64 == 0 {
            check_valid_clause(ctx);
        }
        // ---- (a) argument lengths
        for _ in 0..if light { 2 } else { 6 } {
            let budget = if ctx.rng.chance(1, 30) && !light { 60000 } else { 80 };
            let a = gen_arg(&mut ctx.rng, budget);
            if arg_wellformed(&a).is_err() {
                ctx.harness_error("ill-formed generated argument".into());
                continue;
            }
            ctx.eval();
            let want = arg_size(&a);
            let res = guarded(|| (a.len(), a.as_bytes::<byteorder::BigEndian>().len(), a.as_bytes::<byteorder::LittleEndian>().len()));
            let k = kind_name(&a.type_info.kind);
            ctx.shape(&("arglen", k, a.type_info.has_variable_info, want.min(64)), true);
            match res {
                Err(p) => ctx.panic_violation("arglen.no_panic", &p, || J::obj().set("argument", crate::json::trunc(&format!("{:?}", a), 500))),
                Ok((l, b, le)) => {
                    if l != b || l != le || l != want {
                        ctx.violation("arglen.len_equals_serialised", &format!("{}:{}", k, if a.type_info.has_variable_info { "vari" } else { "plain" }), || {
                            J::obj().set("argument", crate::json::trunc(&format!("{:?}", a), 500)).set("len", l).set("as_bytes_be", b).set("as_bytes_le", le).set("reference", want)
                        });
                    } else {
                        ctx.obs("arglen.ok");
                    }
                }
            }
        }
        // ---- (b') configurations whose arguments are NOT well-formed (name/unit presence not matching
        // the flag, fixed-point data on a plain kind, value variant of another width): the constructor
        // takes any configuration, so the recorded lengths must still be those of its own serialisation
        if ctx.index % 8 == 5 {
            let mut o = GenOpts::small();
            o.force_kind = Some(crate::gen_msg::PKind::Verbose);
            o.force_storage = Some(false);
            let base = gen_msg(&mut ctx.rng, &o);
            if let (PayloadContent::Verbose(mut args), Some(x)) = (base.payload.clone(), base.extended_header.clone()) {
                if args.is_empty() {
                    args.push(gen_arg(&mut ctx.rng, 40));
                }
                let k = ctx.rng.usize_below(args.len());
                let a = &mut args[k];
                let how = match ctx.rng.below(7) {
                    0 => {
                        a.type_info.has_variable_info = true;
                        a.name = Some("n".into());
                        a.unit = None;
                        "vari_without_unit"
                    }
                    1 => {
                        a.type_info.has_variable_info = true;
                        a.name = None;
                        a.unit = None;
                        "vari_without_name"
                    }
                    2 => {
                        a.type_info.has_variable_info = false;
                        a.name = Some("stray".into());
                        "name_without_vari"
                    }
                    3 => {
                        a.type_info.has_variable_info = false;
                        a.unit = Some("u".into());
                        "unit_without_vari"
                    }
                    4 => {
                        a.fixed_point = Some(FixedPoint {
                            quantization: 1.0,
                            offset: FixedPointValue::I32(1),
                        });
                        "stray_fixed_point_data"
                    }
                    5 => {
                        a.value = Value::U8(7);
                        "value_of_other_width"
                    }
                    _ => {
                        a.type_info.has_variable_info = true;
                        a.name = Some("n".into());
                        a.unit = Some("u".into());
                        "name_and_unit_on_any_kind"
                    }
                };
                let conf = MessageConfig {
                    version: base.header.version,
                    counter: base.header.message_counter,
                    endianness: base.header.endianness,
                    ecu_id: base.header.ecu_id.clone(),
                    session_id: base.header.session_id,
                    timestamp: base.header.timestamp,
                    payload: PayloadContent::Verbose(args),
                    extended_header_info: Some(ExtendedHeaderConfig {
                        message_type: x.message_type.clone(),
                        app_id: x.application_id.clone(),
                        context_id: x.context_id.clone(),
                    }),
                };
                let hl = 14 + 4 * conf.ecu_id.is_some() as usize + 4 * conf.session_id.is_some() as usize + 4 * conf.timestamp.is_some() as usize;
                ctx.eval();
                let c2 = conf.clone();
                match guarded(move || {
                    let m = Message::new(c2, None);
                    let b = m.as_bytes();
                    (m.header.payload_length, m.byte_len(), b)
                }) {
                    Err(_) => ctx.obs("new.illformed_argument.panicked(not_demanded)"),
                    Ok((pl, bl, bytes)) => {
                        ctx.shape(&("new_illformed", how), true);
                        if bytes.len() > 65535 {
                            ctx.obs("new.skipped_does_not_fit");
                        } else if pl as usize != bytes.len() - hl {
                            ctx.violation("new.payload_length", &format!("illformed_argument:{}", how), || {
                                J::obj().set("config", crate::json::trunc(&format!("{:?}", conf), 900)).set("recorded_payload_length", pl).set("serialised_payload", bytes.len() - hl).set("how", how)
                            });
                        } else if bl as usize != bytes.len() {
                            ctx.violation("new.byte_len", &format!("illformed_argument:{}", how), || {
                                J::obj().set("config", crate::json::trunc(&format!("{:?}", conf), 900)).set("byte_len", bl).set("serialised", bytes.len())
                            });
                        } else if bytes.len() >= 4 && u16::from_be_bytes([bytes[2], bytes[3]]) as usize != bytes.len() {
                            ctx.violation("new.serialised_size", &format!("illformed_argument:{}", how), || {
                                J::obj().set("config", crate::json::trunc(&format!("{:?}", conf), 900)).set("length_field", u16::from_be_bytes([bytes[2], bytes[3]])).set("serialised", bytes.len())
                            });
                        } else {
                            ctx.obs("new.illformed_argument.lengths_consistent");
                        }
                    }
                }
            }
        }
        // ---- (b)-(d) Message::new over every payload kind x optional fields x ext present/absent
        let mut o = if light {
            GenOpts::small()
        } else if ctx.index % 211 == 3 {
            // one of the 16 largest declarable lengths (also together with a storage header)
            ctx.obs("new.near_max_length");
            GenOpts::near_max(&mut ctx.rng)
        } else {
            GenOpts::normal()
        };
        if !o.force_exact {
            o.typical_total = 160;
        }
        o.force_storage = Some(false);
        let base = gen_msg(&mut ctx.rng, &o);
        // the configuration takes payload and header options independently: also unrepresentable ones
        let ext_cfg = match ctx.rng.below(5) {
            0 => None,
            1 => {
                // deliberately any message type, not necessarily matching the payload kind
                Some(ExtendedHeaderConfig {
                    message_type: mtype_of(ctx.rng.u8() & 0xFE),
                    app_id: gen_id(&mut ctx.rng),
                    context_id: gen_id(&mut ctx.rng),
                })
            }
            _ => base.extended_header.as_ref().map(|x| ExtendedHeaderConfig {
                message_type: x.message_type.clone(),
                app_id: x.application_id.clone(),
                context_id: x.context_id.clone(),
            }),
        };
        let conf = MessageConfig {
            version: base.header.version,
            counter: base.header.message_counter,
            endianness: base.header.endianness,
            ecu_id: base.header.ecu_id.clone(),
            session_id: base.header.session_id,
            timestamp: base.header.timestamp,
            payload: base.payload.clone(),
            extended_header_info: ext_cfg.clone(),
        };
        let sh = if ctx.rng.chance(1, 3) {
            Some(StorageHeader {
                timestamp: DltTimeStamp {
                    seconds: ctx.rng.u32(),
                    microseconds: ctx.rng.u32(),
                },
                ecu_id: gen_id(&mut ctx.rng),
            })
        } else {
            None
        };
        let pk = payload_kind(&conf.payload);
        let be = conf.endianness == Endianness::Big;
        let ps = payload_size(&conf.payload);
        let hl = 4 + 4 * conf.ecu_id.is_some() as usize + 4 * conf.session_id.is_some() as usize + 4 * conf.timestamp.is_some() as usize + 10 * ext_cfg.is_some() as usize;
        if hl + ps > 65535 {
            ctx.obs("new.skipped_does_not_fit");
            return;
        }
        ctx.eval();
        ctx.mark(1);
        let conf2 = conf.clone();
        let sh2 = sh.clone();
        let built = match guarded(move || Message::new(conf2, sh2)) {
            Ok(m) => m,
            Err(p) => {
                ctx.panic_violation("new.no_panic", &p, || J::obj().set("config", crate::json::trunc(&format!("{:?}", conf), 800)));
                return;
            }
        };
        let detail = |what: String| {
            J::obj()
                .set("config", crate::json::trunc(&format!("{:?}", conf), 900))
                .set("storage_header", format!("{:?}", sh))
                .set("built", show_msg(&built))
                .set("what", what)
        };
        let discr = format!("{}:{}", pk, if be { "be" } else { "le" });
        ctx.shape(&("new", pk, ext_cfg.is_some(), be, sh.is_some(), refcodec::htyp_of(&built.header) & 0x1c), true);
        if built.header.payload_length as usize != ps {
            ctx.violation("new.payload_length", &discr, || detail(format!("payload_length {} != reference payload size {}", built.header.payload_length, ps)));
        } else {
            ctx.obs("new.payload_length_ok");
        }
        // every other case constructs a same-shaped twin (same kind, lengths, byte order; other content)
        // between building the message and serialising it: the message still writes its own payload
        if ctx.index % 2 == 1 {
            let mut tw = crate::gen_msg::twin(&built);
            tw.storage_header = None;
            let tw_conf = MessageConfig {
                version: conf.version,
                counter: conf.counter.wrapping_add(1),
                endianness: conf.endianness,
                ecu_id: conf.ecu_id.clone(),
                session_id: conf.session_id,
                timestamp: conf.timestamp,
                payload: tw.payload.clone(),
                extended_header_info: ext_cfg.clone(),
            };
            let sh3 = sh.clone();
            let _ = guarded(move || Message::new(tw_conf, sh3));
            ctx.obs("new.twin_constructed_in_between");
        }
        let bytes = match guarded(|| (built.as_bytes(), built.byte_len())) {
            Ok(x) => x,
            Err(p) => {
                ctx.panic_violation("new.no_panic", &p, || detail("as_bytes/byte_len".into()));
                return;
            }
        };
        let (bytes, byte_len) = bytes;
        let sh_len = if sh.is_some() { 16 } else { 0 };
        if byte_len as usize != bytes.len() - sh_len {
            ctx.violation("new.byte_len", &discr, || detail(format!("byte_len {} != serialised {} - {}", byte_len, bytes.len(), sh_len)));
        } else if bytes.len() - sh_len != hl + ps {
            ctx.violation("new.serialised_size", &discr, || detail(format!("serialised {} != reference {}", bytes.len() - sh_len, hl + ps)));
        } else {
            ctx.obs("new.byte_len_ok");
        }
        // the serialised payload is the configuration's payload (not some other message's)
        {
            let mut want_payload = vec![];
            match &conf.payload {
                PayloadContent::Verbose(a) => {
                    for x in a {
                        refcodec::encode_argument(&mut want_payload, x, be);
                    }
                }
                PayloadContent::NonVerbose(id, d) => {
                    want_payload.extend_from_slice(&if be { id.to_be_bytes() } else { id.to_le_bytes() });
                    want_payload.extend_from_slice(d);
                }
                PayloadContent::ControlMsg(c, d) => {
                    want_payload.push(refcodec::service_id_byte(c));
                    want_payload.extend_from_slice(d);
                }
                PayloadContent::NetworkTrace(sl) => {
                    for d in sl {
                        let w: u32 = 0x400;
                        want_payload.extend_from_slice(&if be { w.to_be_bytes() } else { w.to_le_bytes() });
                        let l = d.len() as u16;
                        want_payload.extend_from_slice(&if be { l.to_be_bytes() } else { l.to_le_bytes() });
                        want_payload.extend_from_slice(d);
                    }
                }
            }
            if bytes.len() >= sh_len + hl && bytes.len() - sh_len - hl == want_payload.len() && bytes[sh_len + hl..] != want_payload[..] {
                ctx.violation("new.serialises_its_own_payload", &discr, || detail(format!("payload bytes {} differ from the configuration's payload {}", hex_trunc(&bytes[sh_len + hl..], 60), hex_trunc(&want_payload, 60))));
            } else {
                ctx.obs("new.own_payload_ok");
            }
        }
        if built.storage_header != sh {
            ctx.violation("new.storage_header_kept", &discr, || detail("storage header altered".into()));
        }
        if let Some(x) = &built.extended_header {
            let (want_verbose, want_count): (bool, u8) = match &conf.payload {
                PayloadContent::Verbose(a) => (true, a.len().min(255) as u8),
                PayloadContent::NetworkTrace(s) => (true, s.len().min(255) as u8),
                _ => (false, 0),
            };
            let count_ok = match &conf.payload {
                PayloadContent::Verbose(_) | PayloadContent::NetworkTrace(_) => x.argument_count == want_count,
                _ => true, // NOAR carries no meaning for non-verbose payloads
            };
            if x.verbose != want_verbose || !count_ok {
                ctx.violation("new.verbose_flag_and_argument_count", &discr, || {
                    detail(format!("verbose={} argument_count={}; the payload kind requires verbose={} count={}", x.verbose, x.argument_count, want_verbose, want_count))
                });
            } else {
                ctx.obs("new.flags_ok");
            }
        }
        // (c) parse back, representable configurations only
        let mt = ext_cfg.as_ref().map(|e| &e.message_type);
        let is_ctrl = matches!(mt, Some(MessageType::Control(_)));
        let is_nw = matches!(mt, Some(MessageType::NetworkTrace(_)));
        let representable = match &conf.payload {
            PayloadContent::Verbose(a) => ext_cfg.is_some() && !is_nw && a.len() <= 255,
            PayloadContent::NetworkTrace(s) => ext_cfg.is_some() && is_nw && s.len() <= 255,
            PayloadContent::ControlMsg(..) => ext_cfg.is_some() && is_ctrl,
            PayloadContent::NonVerbose(..) => !is_ctrl,
        };
        if representable {
            ctx.eval();
            ctx.mark(2);
            let res = guarded(|| dlt_message(&bytes, None, sh.is_some()).map(|(r, pm)| (r.len(), pm)));
            match res {
                Err(p) => ctx.panic_violation("new.no_panic", &p, || detail("parse back".into())),
                Ok(Ok((0, ParsedMessage::Item(pm)))) => {
                    if let Some(d) = diff_msg(&pm, &built, false) {
                        ctx.violation("new.parses_back_equal", &format!("{}:{}", discr, d), || detail(format!("parsed back: {}", show_msg(&pm))));
                    } else {
                        ctx.obs("new.parse_back_ok");
                        ctx.obs_dyn(format!("new.parse_back_ok.{}", pk));
                    }
                }
                Ok(other) => ctx.violation("new.parses_back_equal", &format!("{}:noitem", discr), || detail(crate::json::trunc(&format!("{:?}", other), 400))),
            }
        } else {
            ctx.obs("new.unrepresentable_config_lengths_only");
        }
        // (d) add_storage_header
        ctx.eval();
        ctx.mark(3);
        let given = ctx.rng.chance(2, 3);
        let ts = DltTimeStamp {
            seconds: ctx.rng.u32(),
            microseconds: ctx.rng.below(1_000_000) as u32,
        };
        let before = std::time::SystemTime::now().duration_since(std::time::UNIX_EPOCH).map(|d| d.as_secs()).unwrap_or(0);
        let b0 = built.clone();
        let ts2 = ts.clone();
        let res = guarded(move || b0.add_storage_header(if given { Some(ts2) } else { None }).as_bytes());
        let after = std::time::SystemTime::now().duration_since(std::time::UNIX_EPOCH).map(|d| d.as_secs()).unwrap_or(u64::MAX);
        match res {
            Err(p) => ctx.panic_violation("add_storage_header.no_panic", &p, || detail("add_storage_header".into())),
            Ok(with) => {
                let body = &bytes[sh_len..];
                let ecu = conf.ecu_id.clone().unwrap_or_else(|| "ECU".to_string());
                let mut want = vec![0x44, 0x4C, 0x54, 0x01];
                want.extend_from_slice(&ts.seconds.to_le_bytes());
                want.extend_from_slice(&ts.microseconds.to_le_bytes());
                let mut id = ecu.as_bytes().to_vec();
                id.resize(4.max(id.len()), 0);
                want.extend_from_slice(&id);
                let ok = if with.len() != 16 + body.len() || with[16..] != body[..] {
                    false
                } else if given {
                    with[..16] == want[..]
                } else {
                    let secs = u32::from_le_bytes([with[4], with[5], with[6], with[7]]) as u64;
                    let us = u32::from_le_bytes([with[8], with[9], with[10], with[11]]);
                    with[..4] == want[..4] && with[12..16] == want[12..16] && secs >= before && secs <= after && us < 1_000_000
                };
                if !ok {
                    ctx.violation("add_storage_header.prepends_16_bytes", if given { "given_time" } else { "clock" }, || {
                        detail(format!("with storage header: {} ; expected prefix {} + previous bytes", hex_trunc(&with, 60), hex_trunc(&want, 16)))
                    });
                } else {
                    ctx.obs(if given { "add_storage_header.given_ok" } else { "add_storage_header.clock_ok" });
                    if conf.ecu_id.is_none() {
                        ctx.obs("add_storage_header.default_ecu_ok");
                    }
                }
            }
        }
        ctx.sample(|| J::obj().set("config", crate::json::trunc(&format!("{:?}", conf), 500)).set("built", show_msg(&built)));
    }

    fn describe(&self, ctx: &Ctx) -> J {
        super::describe(
            "per case: 6 well-formed arguments (all 19 kinds, VARI on/off, texts with multi-byte scalars, 1 in 30 with 60 KB data) for the length clause; one MessageConfig built from a generated message: every payload kind x optional ECU/session/timestamp x byte order, extended-header info matching the payload (60 %), absent (20 %) or of an arbitrary message type (20 %, unrepresentable combinations are checked for the length/flag clauses only), with/without a storage header, then add_storage_header with a given time (2/3) or the clock (1/3); every other case constructs a same-shaped twin between building a message and serialising it (the serialised payload is compared with the configuration's own payload); every 8th case builds a configuration with one deliberately ill-formed argument (name/unit presence not matching the flag, stray fixed-point data, value of another width) and checks the recorded lengths against the constructor's own serialisation; 1 in 211 configurations has one of the 16 largest declarable lengths; every 64th case additionally enumerates {bool,f32,f64} x all 15 value variants for valid(). distinct = (clause, payload kind, ext present, byte order, storage variant, optional-field flags) / (kind, VARI, size bucket); all non-trivial",
            &["representable = extended header absent => non-verbose payload; control payload <=> control type; network-trace payload <=> network-trace type; verbose payload => any other type", "NOAR is not checked for non-verbose/control payloads (it carries no meaning there)", "clock variant: seconds must lie between clock readings taken before and after the call"],
            &[("arglen.ok", super::scaled(ctx, 100000)), ("new.parse_back_ok", super::scaled(ctx, 20000)), ("new.parse_back_ok.networktrace", 500), ("new.parse_back_ok.control", 500), ("add_storage_header.given_ok", super::scaled(ctx, 5000)), ("add_storage_header.clock_ok", super::scaled(ctx, 2000)), ("add_storage_header.default_ecu_ok", 1000), ("valid.ok", 45)],
        )
    }
}
