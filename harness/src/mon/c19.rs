//! C19 — fixed-size NUL-terminated fields consume their size and yield the clean prefix.
//!
//! Oracle: len(s) >= n  =>  Ok((rest, t)) with rest == s[n..] *by address* and
//! t == longest valid UTF-8 prefix (naive validator) of s[..min(n, first NUL)];
//! len(s) < n  =>  IncompleteParse with needed None or 1 <= needed <= n - len(s).
//! Every returned &str is re-validated with str::from_utf8 (the crate's only unsafe block
//! is from_utf8_unchecked). Ids of messages obey the same rule through dlt_message.
//!
//! Case index space:  [0, exh_chunks)        exhaustive strings over an 8-symbol alphabet x sizes 0..=7
//!                    [.., +id_chunks)        all 4-byte ids over a 16-symbol alphabet through dlt_message
//!                    afterwards              random long buffers / sizes up to 65535

use crate::ctx::{guarded, Ctx, Monitor, Tier};
use crate::json::{hex_trunc, J};
use crate::refcodec::{self, field_value};
use dlt_core::dlt::*;
use dlt_core::parse::{dlt_message, dlt_zero_terminated_string, DltParseError, ParsedMessage};

const ALPHA: [u8; 8] = [0x00, b'a', 0xC3, 0xA9, 0xE2, 0x82, 0xF0, 0xFF];
const ID_ALPHA: [u8; 16] = [0x00, 0x01, b'A', b'z', b' ', 0x7F, 0x80, 0x81, 0xC3, 0xA9, 0xE2, 0x82, 0xAC, 0xF0, 0x9F, 0xFF];
const STR_CHUNK: u64 = 512;
const ID_CHUNK: u64 = 256;

#[derive(Default)]
pub struct M {}

fn max_len(tier: Tier, light: bool) -> u32 {
    if light {
        2
    } else if tier == Tier::Thorough {
        6
    } else {
        5
    }
}
fn n_strings(maxlen: u32) -> u64 {
    (0..=maxlen).map(|l| 8u64.pow(l)).sum()
}
pub fn exh_chunks(tier: Tier, light: bool) -> u64 {
    (n_strings(max_len(tier, light)) + STR_CHUNK - 1) / STR_CHUNK
}
pub fn id_chunks(light: bool) -> u64 {
    if light {
        2
    } else {
        (16u64.pow(4) + ID_CHUNK - 1) / ID_CHUNK
    }
}

fn nth_string(mut code: u64) -> Vec<u8> {
    let mut len = 0u32;
    loop {
        let c = 8u64.pow(len);
        if code < c {
            break;
        }
        code -= c;
        len += 1;
    }
    let mut s = Vec::with_capacity(len as usize);
    for _ in 0..len {
        s.push(ALPHA[(code % 8) as usize]);
        code /= 8;
    }
    s
}

fn check_field(ctx: &mut Ctx, s: &[u8], size: usize, class: &'static str) {
    // an allocation of exactly the buffer's size (red zones directly behind the last byte)
    let exact: Box<[u8]> = s.to_vec().into_boxed_slice();
    let s: &[u8] = &exact;
    ctx.eval();
    ctx.mark(size as u32);
    let res = guarded(|| {
        dlt_zero_terminated_string(s, size).map(|(rest, t)| {
            (
                super::ptr_off(s, rest),
                rest.len(),
                t.as_bytes().to_vec(),
                std::str::from_utf8(t.as_bytes()).is_ok(),
            )
        })
    });
    let detail = |got: String| {
        J::obj()
            .set("input_hex", hex_trunc(s, 80))
            .set("input_len", s.len())
            .set("size", size)
            .set("got", got)
    };
    let has_nul = s[..size.min(s.len())].contains(&0);
    match res {
        Err(p) => ctx.panic_violation("no_panic", &p, || detail("panic".into())),
        Ok(Ok((off, rl, t, valid))) => {
            if !valid {
                ctx.violation("returned_str_is_valid_utf8", class, || detail(hex_trunc(&t, 40)));
            }
            if s.len() < size {
                ctx.violation("short_input_must_be_incomplete", class, || detail(format!("Ok rest_len={}", rl)));
                return;
            }
            let exp = field_value(&s[..size]);
            if off != Some(size) || rl != s.len() - size {
                ctx.violation("consumes_exactly_size", class, || {
                    detail(format!("rest offset {:?} len {}", off, rl))
                });
            } else if t != exp {
                ctx.violation("clean_prefix", class, || {
                    detail(hex_trunc(&t, 40)).set("expected_hex", hex_trunc(exp, 40))
                });
            } else {
                ctx.obs("ok.complete");
                if exp.len() < size && !has_nul {
                    ctx.obs("ok.utf8_salvaged");
                }
            }
            let salvage = exp.len() < s[..size].iter().position(|&x| x == 0).unwrap_or(size);
            ctx.shape(&(class, size.min(9), s.len().min(9), has_nul, salvage, exp.len().min(9)), size > 0);
        }
        Ok(Err(DltParseError::IncompleteParse { needed })) => {
            if s.len() >= size {
                ctx.violation("enough_input_must_succeed", class, || detail(format!("Incomplete {:?}", needed)));
            } else if let Some(k) = needed {
                if k.get() > size - s.len() {
                    ctx.violation("hint_not_above_shortfall", class, || {
                        detail(format!("needed {}", k)).set("shortfall", size - s.len())
                    });
                } else {
                    ctx.obs("ok.incomplete_with_hint");
                }
            } else {
                ctx.obs("ok.incomplete_no_hint");
            }
            ctx.shape(&(class, "inc", size.min(9), s.len().min(9), has_nul), size > 0);
        }
        Ok(Err(e)) => ctx.violation("no_hard_error", class, || detail(format!("{:?}", e))),
    }
}

fn check_ids(ctx: &mut Ctx, id: [u8; 4]) {
    // a reference-encoded message with all four id fields, then the raw id bytes are planted
    let m = Message {
        storage_header: Some(StorageHeader {
            timestamp: DltTimeStamp {
                seconds: 1,
                microseconds: 2,
            },
            ecu_id: "AAAA".into(),
        }),
        header: StandardHeader {
            version: 1,
            endianness: Endianness::Little,
            has_extended_header: true,
            message_counter: 7,
            ecu_id: Some("BBBB".into()),
            session_id: None,
            timestamp: Some(5),
            payload_length: 5,
        },
        extended_header: Some(ExtendedHeader {
            verbose: false,
            argument_count: 0,
            message_type: MessageType::Log(LogLevel::Info),
            application_id: "CCCC".into(),
            context_id: "DDDD".into(),
        }),
        payload: PayloadContent::NonVerbose(9, vec![1]),
    };
    let e = refcodec::ref_encode(&m);
    let exp = String::from_utf8_lossy(field_value(&id)).into_owned();
    for (which, label) in [
        ("storage.ecu", "storage_ecu"),
        ("std.ecu", "header_ecu"),
        ("ext.apid", "apid"),
        ("ext.ctid", "ctid"),
    ] {
        let mut b = e.bytes.clone();
        let f = e.find(which).unwrap();
        b[f.start..f.end].copy_from_slice(&id);
        ctx.eval();
        let res = guarded(|| dlt_message(&b, None, true).map(|(rest, pm)| (rest.len(), pm)));
        let detail = |got: String| {
            J::obj()
                .set("id_hex", hex_trunc(&id, 8))
                .set("field", label)
                .set("expected", exp.clone())
                .set("got", got)
        };
        match res {
            Err(p) => ctx.panic_violation("ids.no_panic", &p, || detail("panic".into())),
            Ok(Ok((0, ParsedMessage::Item(pm)))) => {
                let got = match label {
                    "storage_ecu" => pm.storage_header.as_ref().map(|s| s.ecu_id.clone()),
                    "header_ecu" => pm.header.ecu_id.clone(),
                    "apid" => pm.extended_header.as_ref().map(|x| x.application_id.clone()),
                    _ => pm.extended_header.as_ref().map(|x| x.context_id.clone()),
                };
                let got = got.unwrap_or_else(|| "<missing>".into());
                if std::str::from_utf8(got.as_bytes()).is_err() {
                    ctx.violation("returned_str_is_valid_utf8", label, || detail(hex_trunc(got.as_bytes(), 8)));
                } else if got != exp {
                    ctx.violation("ids.clean_prefix", label, || detail(got.clone()));
                } else {
                    ctx.obs("ok.id");
                }
                ctx.shape(&("id", label, id.iter().position(|&x| x == 0), exp.len()), true);
            }
            Ok(other) => ctx.violation("ids.message_expected", label, || detail(format!("{:?}", other))),
        }
    }
}

/// a verbose string argument is a field of declared size n as well: the message parser must hand
/// back the clean prefix of exactly those n bytes, for every n the 16-bit length can express
fn check_string_argument(ctx: &mut Ctx, content: &[u8], be: bool) {
    let n = content.len();
    if n + 14 + 6 > 65535 {
        return;
    }
    let total = 14 + 6 + n;
    let mut b = vec![0x21 | if be { 2 } else { 0 }, 0, (total >> 8) as u8, total as u8, 0x41, 1, b'A', 0, 0, 0, b'C', 0, 0, 0];
    let ti: u32 = 0x0000_8200; // string, UTF-8
    if be {
        b.extend_from_slice(&ti.to_be_bytes());
        b.extend_from_slice(&(n as u16).to_be_bytes());
    } else {
        b.extend_from_slice(&ti.to_le_bytes());
        b.extend_from_slice(&(n as u16).to_le_bytes());
    }
    b.extend_from_slice(content);
    ctx.eval();
    let exp = field_value(content).to_vec();
    let res = guarded(|| dlt_message(&b, None, false).map(|(rest, pm)| (rest.len(), pm)));
    let detail = |got: String| J::obj().set("declared_size", n).set("big_endian", be).set("content_hex", hex_trunc(content, 48)).set("expected_hex", hex_trunc(&exp, 48)).set("got", got);
    let bucket = if n >= 32768 { ">=32768" } else if n >= 256 { ">=256" } else { "<256" };
    match res {
        Err(p) => ctx.panic_violation("string_argument.no_panic", &p, || detail("panic".into())),
        Ok(Ok((0, ParsedMessage::Item(pm)))) => match &pm.payload {
            PayloadContent::Verbose(a) if a.len() == 1 => match &a[0].value {
                Value::StringVal(v) if v.as_bytes() == &exp[..] => {
                    ctx.obs("ok.string_argument");
                    ctx.obs_dyn(format!("ok.string_argument.size{}", bucket));
                }
                other => ctx.violation("string_argument.clean_prefix", bucket, || detail(crate::json::trunc(&format!("{:?}", other), 200))),
            },
            other => ctx.violation("string_argument.message_expected", bucket, || detail(crate::json::trunc(&format!("{:?}", other), 200))),
        },
        Ok(other) => ctx.violation("string_argument.message_expected", bucket, || detail(crate::json::trunc(&format!("{:?}", other), 200))),
    }
    ctx.shape(&("string_argument", bucket, be, exp.len().min(9)), true);
}

/// a message cut inside one of its 4-byte id fields (0..=3 bytes of the field present), optionally
/// with junk in front of the storage header: fewer than n bytes available -> incomplete, and
/// nothing behind the end of the buffer is looked at (exact-size allocation for the sanitizers)
fn check_truncated_ids(ctx: &mut Ctx, junk: &[u8]) {
    let m = Message {
        storage_header: Some(StorageHeader {
            timestamp: DltTimeStamp { seconds: 1, microseconds: 2 },
            ecu_id: "AAAA".into(),
        }),
        header: StandardHeader {
            version: 1,
            endianness: Endianness::Little,
            has_extended_header: true,
            message_counter: 7,
            ecu_id: Some("BBBB".into()),
            session_id: None,
            timestamp: None,
            payload_length: 5,
        },
        extended_header: Some(ExtendedHeader {
            verbose: false,
            argument_count: 0,
            message_type: MessageType::Log(LogLevel::Info),
            application_id: "CCCC".into(),
            context_id: "DDDD".into(),
        }),
        payload: PayloadContent::NonVerbose(9, vec![1]),
    };
    let e = refcodec::ref_encode(&m);
    for (which, label) in [("storage.ecu", "storage_ecu"), ("std.ecu", "header_ecu"), ("ext.apid", "apid"), ("ext.ctid", "ctid")] {
        let f = e.find(which).unwrap();
        for have in 0..4usize {
            for wsh in [true, false] {
                if !wsh && which == "storage.ecu" {
                    continue;
                }
                let body = if wsh { &e.bytes[..f.start + have] } else { &e.bytes[16..f.start + have] };
                let mut v = if wsh { junk.to_vec() } else { vec![] };
                v.extend_from_slice(body);
                let exact: Box<[u8]> = v.into_boxed_slice();
                ctx.eval();
                let res = guarded(|| dlt_message(&exact, None, wsh).map(|(r, pm)| (r.len(), format!("{:?}", pm))));
                let missing = 4 - have;
                let detail = |got: String| J::obj().set("input_hex", hex_trunc(&exact, 64)).set("field", label).set("bytes_of_field_present", have).set("with_storage_header", wsh).set("junk_len", junk.len()).set("got", got);
                match res {
                    Err(p) => ctx.panic_violation("ids.no_panic", &p, || detail("panic".into())),
                    Ok(Err(DltParseError::IncompleteParse { needed })) => {
                        // the whole message misses more than the field does; the field-level bound is the one C19 states
                        let total_missing = e.bytes.len() - (f.start + have);
                        if matches!(needed, Some(k) if k.get() > total_missing) {
                            ctx.violation("ids.hint_not_above_shortfall", label, || detail(format!("needed {:?}", needed)).set("field_shortfall", missing));
                        } else {
                            ctx.obs("ok.truncated_id_incomplete");
                        }
                    }
                    Ok(other) => ctx.violation("ids.truncated_field_must_be_incomplete", label, || detail(crate::json::trunc(&format!("{:?}", other), 200))),
                }
                ctx.shape(&("truncated_id", label, have, wsh, junk.len().min(9)), true);
            }
        }
    }
}

/// ids built from the bytes of the storage-header pattern
const PATTERN_ALPHA: [u8; 6] = [0x44, 0x4C, 0x54, 0x01, 0x00, b'x'];

impl Monitor for M {
    fn case(&mut self, ctx: &mut Ctx) {
        let light = ctx.light();
        let ec = exh_chunks(ctx.tier, light);
        let ic = id_chunks(light);
        let i = ctx.index;
        if i < ec {
            ctx.obs("chunks.exhaustive_strings");
            let total = n_strings(max_len(ctx.tier, light));
            for code in i * STR_CHUNK..((i + 1) * STR_CHUNK).min(total) {
                let s = nth_string(code);
                for size in 0..=7usize {
                    check_field(ctx, &s, size, "exhaustive");
                }
            }
            return;
        }
        let i = i - ec;
        if i < ic {
            ctx.obs("chunks.exhaustive_ids");
            // interpreters: 8 ids per chunk, spread over the id space
            let (lo, hi, step) = if light { (i * 5003, i * 5003 + 8 * 997, 997) } else { (i * ID_CHUNK, ((i + 1) * ID_CHUNK).min(16u64.pow(4)), 1) };
            for code in (lo..hi).step_by(step) {
                let mut c = code;
                let mut id = [0u8; 4];
                for b in id.iter_mut() {
                    *b = ID_ALPHA[(c % 16) as usize];
                    c /= 16;
                }
                check_ids(ctx, id);
            }
            return;
        }
        // random: long buffers of text with multi-byte scalars across the size limit / NULs
        ctx.obs("chunks.random");
        // all 6^4 ids over the bytes of the storage-header pattern walk with the case index
        {
            let mut c = (i - ic) % 1296;
            let mut id = [0u8; 4];
            for b in id.iter_mut() {
                *b = PATTERN_ALPHA[(c % 6) as usize];
                c /= 6;
            }
            ctx.obs("ids.over_pattern_bytes");
            check_ids(ctx, id);
        }
        // id fields cut short, with 0..20 bytes of pattern-free junk in front (walks with the case index)
        {
            let jl = ((i - ic) % 21) as usize;
            let junk: Vec<u8> = (0..jl).map(|k| [b'x', 0x44, 0x4C, 0x00, 0xFF][(k + jl) % 5]).collect();
            check_truncated_ids(ctx, &junk);
        }
        // a string argument of a declared size around a power of two / anywhere up to the maximum
        if !light || ctx.rng.chance(1, 4) {
            let n = if light {
                ctx.rng.usize_below(40)
            } else {
                match ctx.rng.below(8) {
                    0 => 32767 + ctx.rng.usize_below(3),
                    1 => (1usize << ctx.rng.range(1, 15)) - 1 + ctx.rng.usize_below(3),
                    2 => 65515 - ctx.rng.usize_below(3),
                    3 => ctx.rng.range(32768, 65515) as usize,
                    _ => ctx.rng.usize_below(300),
                }
            };
            let mut content: Vec<u8> = Vec::with_capacity(n);
            let style = ctx.rng.below(3);
            while content.len() < n {
                match style {
                    0 => content.push(b'a' + ctx.rng.below(26) as u8),
                    1 => content.extend_from_slice(ctx.rng.pick(crate::gen_msg::CHUNKS).as_bytes()),
                    _ => {
                        if ctx.rng.chance(1, 200) {
                            content.push(0);
                        } else if ctx.rng.chance(1, 300) {
                            content.push(0xFF);
                        } else {
                            content.push(b'a' + ctx.rng.below(26) as u8);
                        }
                    }
                }
            }
            content.truncate(n);
            if n > 0 && ctx.rng.chance(2, 3) {
                content[n - 1] = 0; // the usual terminator inside the declared size
            }
            let be = ctx.rng.chance(1, 2);
            check_string_argument(ctx, &content, be);
        }
        let reps = if light { 2 } else { 16 };
        for _ in 0..reps {
            let max = if light { 200 } else { 70_000 };
            let len = match ctx.rng.below(6) {
                0 => ctx.rng.usize_below(40),
                1 => ctx.rng.usize_below(max),
                _ => ctx.rng.usize_below(600),
            };
            let mut s: Vec<u8> = Vec::with_capacity(len + 4);
            let style = ctx.rng.below(4);
            while s.len() < len {
                match style {
                    0 => s.push(*ctx.rng.pick(&ALPHA)),
                    1 => s.extend_from_slice(ctx.rng.pick(crate::gen_msg::CHUNKS).as_bytes()),
                    2 => {
                        if ctx.rng.chance(1, 40) {
                            s.extend_from_slice(*ctx.rng.pick(crate::mutate::INVALID_UTF8));
                        } else if ctx.rng.chance(1, 60) {
                            s.push(0);
                        } else {
                            s.extend_from_slice(ctx.rng.pick(crate::gen_msg::CHUNKS).as_bytes());
                        }
                    }
                    _ => s.push(ctx.rng.u8()),
                }
            }
            // sizes: around the buffer length, around the first NUL, and anything up to 65535
            let first_nul = s.iter().position(|&x| x == 0).unwrap_or(s.len());
            for _ in 0..4 {
                let size = match ctx.rng.below(6) {
                    0 => s.len().saturating_sub(ctx.rng.usize_below(5)),
                    1 => s.len() + ctx.rng.usize_below(5),
                    2 => first_nul.saturating_sub(ctx.rng.usize_below(4)),
                    3 => first_nul + ctx.rng.usize_below(4),
                    4 => ctx.rng.usize_below(65536),
                    _ => ctx.rng.usize_below(s.len() + 2),
                }
                .min(65535);
                check_field(ctx, &s, size, "random");
            }
            if ctx.cases % 50 == 1 {
                let ss = s.clone();
                ctx.sample(|| J::obj().set("input_hex", hex_trunc(&ss, 48)).set("input_len", ss.len()).set("first_nul", first_nul));
            }
        }
    }

    fn describe(&self, ctx: &Ctx) -> J {
        let light = ctx.light();
        let ml = max_len(ctx.tier, light);
        super::describe(
            &format!("exhaustive: all {} byte strings of length <= {} over {{00,'a',C3,A9,E2,82,F0,FF}} x all sizes 0..=7; all 16^4 = 65536 four-byte ids over {{00,01,'A','z',' ',7F,80,81,C3,A9,E2,82,AC,F0,9F,FF}} planted into storage-ECU / header-ECU / APID / CTID of a reference-encoded message and read back through dlt_message; random: per case one of the 6^4 ids over the bytes {{44,4C,54,01,00,'x'}} of the storage-header pattern through the same four fields, one verbose string argument of declared size n (around every power of two up to 2^15, 32767..32769, up to 65515) read back through dlt_message, a message cut inside each of its four id fields (0-3 bytes of the field present, 0-20 junk bytes in front, exact-size allocations), and buffers up to 70000 bytes (alphabet soup, valid multi-byte text, text with injected invalid sequences and NULs, arbitrary bytes) x sizes around the buffer end, around the first NUL and anywhere in 0..65535. distinct = (class, size bucket, length bucket, NUL present, salvage needed, result length bucket); non-trivial = size > 0", n_strings(ml), ml),
            &["longest valid UTF-8 prefix is computed by a naive scalar-by-scalar validator written for the harness (RFC 3629 ranges)"],
            &[("ok.complete", super::scaled(ctx, 10000)), ("ok.utf8_salvaged", super::scaled(ctx, 1000)), ("ok.incomplete_with_hint", 100), ("ok.id", super::scaled(ctx, 5000))],
        )
        .set("fixed_chunks", exh_chunks(ctx.tier, light) + id_chunks(light))
        .set("exhaustive_space", format!("{} strings x 8 sizes + 65536 ids x 4 fields", n_strings(ml)))
    }
}
