//! C05 — every proper prefix of a valid message is reported incomplete, with a safe hint.
//!
//! For each well-formed message b (crate-serialised; C01/C02 tie that to the layout) and each
//! cut 0 <= c < len(b): dlt_message(b[..c]) must be Err(IncompleteParse{needed}) with needed
//! None or 1 <= needed <= len(b)-c; dlt_consume_msg likewise for c >= 1 and Ok((_, None)) for
//! c = 0. The cut dimension is enumerated exhaustively per message (sampled for messages
//! longer than 600 bytes: every 97th offset plus +-2 around every field boundary).

use crate::ctx::{guarded, Ctx, Monitor};
use crate::gen_msg::{gen_msg, gen_systematic, wellformed, GenOpts, SYS_PERIOD};
use crate::json::{hex_trunc, J};
use crate::refcodec::{payload_kind, ref_encode, show_msg};
use dlt_core::parse::{dlt_consume_msg, dlt_message, DltParseError};

#[derive(Default)]
pub struct M {}

impl Monitor for M {
    fn case(&mut self, ctx: &mut Ctx) {
        let light = ctx.light();
        let big = !light && ctx.index % 400 == 7;
        let m = if ctx.index % 4 == 0 {
            gen_systematic(&mut ctx.rng, (ctx.index / 4) % SYS_PERIOD).0
        } else if !light && ctx.index % 1600 == 407 {
            // the message whose standard header reads "DLT\x01" (HTYP 0x44, counter 0x4C, length 0x5401)
            ctx.obs("messages.header_equals_storage_pattern");
            let storage = ctx.rng.chance(1, 2);
            crate::gen_msg::pattern_start_msg(&mut ctx.rng, storage)
        } else if big && ctx.index % 1600 == 7 {
            // one of the 16 largest lengths: with a storage header the message exceeds 65535 bytes
            ctx.obs("messages.near_max_length");
            let o = GenOpts::near_max(&mut ctx.rng);
            gen_msg(&mut ctx.rng, &o)
        } else if big {
            let mut o = GenOpts::normal();
            o.typical_total = 65000;
            gen_msg(&mut ctx.rng, &o)
        } else {
            let mut o = GenOpts::small();
            if light {
                o.max_total = 70;
                o.typical_total = 50;
            }
            gen_msg(&mut ctx.rng, &o)
        };
        if let Err(why) = wellformed(&m) {
            ctx.harness_error(format!("ill-formed generated message: {}", why));
            return;
        }
        let wsh = m.storage_header.is_some();
        let e = ref_encode(&m);
        let b = match guarded(|| m.as_bytes()) {
            Ok(b) => b,
            Err(p) => {
                ctx.panic_violation("serialise_no_panic", &p, || J::obj().set("message", show_msg(&m)));
                return;
            }
        };
        // the field map comes from the reference encoding; labels are only used for reporting,
        // and only when both encodings have the same length
        let labels_ok = e.bytes.len() == b.len();
        let cuts: Vec<usize> = if b.len() <= 600 {
            (0..b.len()).collect()
        } else {
            let mut v: Vec<usize> = (0..b.len()).step_by(97).collect();
            for f in &e.fields {
                for d in 0..5usize {
                    let c = (f.start + d).saturating_sub(2);
                    if c < b.len() {
                        v.push(c);
                    }
                }
            }
            v.push(b.len() - 1);
            v.sort_unstable();
            v.dedup();
            ctx.obs("messages.large_sampled_cuts");
            v
        };
        let pk = payload_kind(&m.payload);
        for &c in &cuts {
            let label = if labels_ok { e.label_at(c) } else { "?" };
            ctx.eval();
            ctx.mark(c as u32);
            let missing = b.len() - c;
            // under a sanitizer every prefix is its own allocation of exactly c bytes
            let owned: Option<Box<[u8]>> = if ctx.sanitized() { Some(b[..c].to_vec().into_boxed_slice()) } else { None };
            let piece: &[u8] = owned.as_deref().unwrap_or(&b[..c]);
            let res = guarded(|| dlt_message(piece, None, wsh).map(|(r, pm)| (r.len(), format!("{:?}", pm))));
            ctx.shape(&(wsh, pk, label), c > 0);
            let detail = |got: String| {
                J::obj()
                    .set("message", show_msg(&m))
                    .set("serialised_hex", hex_trunc(&b, 200))
                    .set("serialised_len", b.len())
                    .set("cut", c)
                    .set("cut_inside_field", label)
                    .set("with_storage_header", wsh)
                    .set("got", got)
            };
            match res {
                Err(p) => ctx.panic_violation("no_panic", &p, || detail("panic".into())),
                Ok(Err(DltParseError::IncompleteParse { needed })) => match needed {
                    Some(k) if k.get() > missing => ctx.violation("hint_not_above_missing", label, || detail(format!("needed {} > missing {}", k, missing))),
                    Some(_) => {
                        ctx.obs("ok.incomplete_with_hint");
                        ctx.obs_dyn(format!("cut.{}", label));
                    }
                    None => {
                        ctx.obs("ok.incomplete_no_hint");
                        ctx.obs_dyn(format!("cut.{}", label));
                    }
                },
                Ok(Err(e2)) => ctx.violation("prefix_is_incomplete", &format!("hard_error:{}:{}", pk, label), || detail(format!("Err({:?})", e2))),
                Ok(Ok((rl, pm))) => ctx.violation("prefix_is_incomplete", &format!("message:{}:{}", pk, label), || detail(format!("Ok(rest_len={}, {})", rl, crate::json::trunc(&pm, 300)))),
            }
            if wsh {
                ctx.eval();
                let res = guarded(|| dlt_consume_msg(piece).map(|(r, n)| (r.len(), n)));
                match res {
                    Err(p) => ctx.panic_violation("consume.no_panic", &p, || detail("panic".into())),
                    Ok(Ok((_, None))) if c == 0 => ctx.obs("ok.consume_none_on_empty"),
                    Ok(Err(DltParseError::IncompleteParse { needed })) if c > 0 => match needed {
                        Some(k) if k.get() > missing => ctx.violation("consume.hint_not_above_missing", label, || detail(format!("needed {} > missing {}", k, missing))),
                        _ => ctx.obs("ok.consume_incomplete"),
                    },
                    Ok(other) => ctx.violation("consume.prefix_is_incomplete", label, || detail(format!("{:?}", other))),
                }
            }
        }
        ctx.sample(|| J::obj().set("message", show_msg(&m)).set("serialised_len", b.len()).set("cuts_tried", cuts.len()));
    }

    fn describe(&self, ctx: &Ctx) -> J {
        super::describe(
            "well-formed messages (1/4 systematic layer: all flag sets, MSIN bytes, argument kinds x VARI x byte order, empty payloads; 3/4 random small messages up to 300 bytes; 1 in 400 large, up to 65535 bytes, a quarter of those with one of the 16 largest declarable lengths) cut at EVERY offset 0..len-1 (messages > 600 bytes: every 97th offset plus +-2 around every field boundary), through dlt_message in the message's storage mode and, for storage-header messages, dlt_consume_msg. The reference field map labels each cut (storage.pattern ... arg.value). distinct = (storage mode, payload kind, field label containing the cut); non-trivial = cut > 0",
            &["the truncated bytes come from the crate's own serialiser; C01/C02 establish that these are the layout's bytes"],
            &[("ok.incomplete_with_hint", super::scaled(ctx, 500000)), ("ok.consume_incomplete", super::scaled(ctx, 100000)), ("cut.std.len", 1000), ("cut.arg.typeinfo", 1000), ("cut.arg.namelen", 1000), ("cut.storage.ecu", 1000), ("cut.ext.apid", 1000)],
        )
    }
}
