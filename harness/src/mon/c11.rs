//! C11 — the FIBEX model returned is exactly the model written in the files.
//!
//! An abstract model (frames, PDUs, signals, codings) and a layout (partition into files,
//! element / child order, sequence-number permutation, namespace prefixes, reference forms,
//! escaping) are generated; the expected FibexMetadata is computed from model + layout, the
//! XML is emitted to scratch files, and gather_fibex_data / extract_metadata must agree.

use crate::ctx::{guarded, Ctx, Monitor};
use crate::fibexgen::*;
use crate::json::{trunc, J};
use dlt_core::dlt::{ExtendedHeader, LogLevel, MessageType};
use dlt_core::fibex::{extract_metadata, gather_fibex_data, FibexConfig, FrameMetadataIdentification};

#[derive(Default)]
pub struct M {
    dir: Option<String>,
}

impl M {
    fn scratch(&mut self, ctx: &Ctx) -> String {
        if self.dir.is_none() {
            let base = ctx.out_dir.clone().unwrap_or_else(|| std::env::temp_dir().to_string_lossy().into_owned());
            let d = format!("{}/fibex-{}-{}-{}", base, ctx.prop, ctx.engine.name(), ctx.shard);
            let _ = std::fs::create_dir_all(&d);
            self.dir = Some(d);
        }
        self.dir.clone().unwrap()
    }
}

impl Monitor for M {
    fn case(&mut self, ctx: &mut Ctx) {
        let dir = self.scratch(ctx);
        let small = ctx.light() || ctx.rng.chance(1, 3);
        let model = gen_model(&mut ctx.rng, small);
        let layout = gen_layout(&mut ctx.rng, &model);
        let exp = expected_metadata(&model, &layout);
        let mut paths = vec![];
        let mut texts = vec![];
        let rng_before_emission = ctx.rng.clone();
        for (i, f) in layout.files.iter().enumerate() {
            let x = emit_file(&mut ctx.rng, f);
            // file names in no particular order: the order that counts is the order of the path list
            let stem = *ctx.rng.pick(&["vehicle", "base", "zz", "a", "M", "b10", "b9", "_", "Z"]);
            let p = format!("{}/{}{}.xml", dir, stem, i);
            if let Err(e) = std::fs::write(&p, &x) {
                ctx.harness_error(format!("cannot write scratch file: {}", e));
                return;
            }
            paths.push(p);
            texts.push(x);
        }
        // a file configured twice changes nothing (its frames and PDUs are duplicates of themselves)
        if !paths.is_empty() && ctx.rng.chance(1, 10) {
            let again = paths[ctx.rng.usize_below(paths.len())].clone();
            paths.push(again);
            ctx.obs("layout.path_listed_twice");
        }
        ctx.eval();
        ctx.mark(1);
        let got = guarded(|| {
            gather_fibex_data(FibexConfig {
                fibex_file_paths: paths.clone(),
            })
        });
        let dup_frames = {
            let mut ids: Vec<&str> = model.frames.iter().map(|f| f.id.as_str()).collect();
            ids.sort_unstable();
            ids.windows(2).any(|w| w[0] == w[1])
        };
        let dup_pdus = {
            let mut ids: Vec<&str> = model.pdus.iter().map(|f| f.id.as_str()).collect();
            ids.sort_unstable();
            ids.windows(2).any(|w| w[0] == w[1])
        };
        let mut vocab: Vec<&str> = model.pdus.iter().flat_map(|p| p.sigs.iter().map(|s| s.1.as_str())).collect();
        vocab.sort_unstable();
        vocab.dedup();
        ctx.shape(
            &(layout.files.len(), layout.grouped, dup_frames, dup_pdus, model.dangling, &vocab, model.frames.len().min(5), model.pdus.len().min(8)),
            !model.frames.is_empty() || !model.pdus.is_empty(),
        );
        for p in &model.pdus {
            for (_, s) in &p.sigs {
                if s.starts_with("S_") {
                    ctx.obs_dyn(format!("vocab.{}", s));
                } else if let Some((_, c)) = model.signals.iter().find(|(id, _)| id == s) {
                    if let Some((_, b)) = model.codings.iter().find(|(id, _)| id == c) {
                        ctx.obs_dyn(format!("vocab.{}", b));
                    } else {
                        ctx.obs("vocab.signal_without_coding");
                    }
                } else {
                    ctx.obs("vocab.unknown_signal_ref");
                }
            }
        }
        let detail = |what: String| {
            J::obj()
                .set("files", J::Arr(texts.iter().map(|t| J::Str(trunc(t, 6000))).collect()))
                .set("model", trunc(&format!("{:?}", model), 3000))
                .set("what", what)
        };
        match (got, &exp) {
            (Err(p), _) => ctx.panic_violation("load.no_panic", &p, || detail("panic".into())),
            (Ok(None), None) => {
                ctx.obs("ok.dangling_pdu_ref_refused");
            }
            (Ok(Some(_)), None) => ctx.violation("load.dangling_pdu_ref_must_fail", "some", || detail("a model was returned although a frame references an unknown PDU".into())),
            (Ok(None), Some(_)) => ctx.violation("load.must_succeed", &format!("files={}", layout.files.len()), || detail("loading failed although every reference resolves".into())),
            (Ok(Some(g)), Some(e)) => {
                let mut ok = true;
                if let Some(place) = invalid_string_in_model(&g) {
                    ok = false;
                    ctx.violation("model.strings_valid_utf8", &place, || detail(format!("a string of the returned model is not valid UTF-8: {}", place)));
                }
                // the returned maps, re-keyed by plain strings / tuples: the comparison must not depend
                // on the crate's own Eq / Hash of its key type
                let g_frames: std::collections::BTreeMap<String, &dlt_core::fibex::FrameMetadata> = g.frame_map.iter().map(|(k, v)| (k.clone(), v)).collect();
                let g_keyed: std::collections::BTreeMap<(String, String, String), &dlt_core::fibex::FrameMetadata> =
                    g.frame_map_with_key.iter().map(|(k, v)| ((k.context_id.clone(), k.app_id.clone(), k.frame_id.clone()), v)).collect();
                if g_frames.len() != g.frame_map.len() || g_keyed.len() != g.frame_map_with_key.len() {
                    ok = false;
                    ctx.violation("model.duplicate_keys", "map", || detail("the returned map holds two entries with the same key text".into()));
                }
                let frames_equal = g_frames.len() == e.frame_map.len() && e.frame_map.iter().all(|(k, v)| g_frames.get(k).map_or(false, |gv| same_frame(gv, v)));
                if !frames_equal {
                    ok = false;
                    // find the first differing aspect for the signature
                    let mut what = "frame_map.keys".to_string();
                    for (k, v) in &e.frame_map {
                        match g_frames.get(k) {
                            None => {
                                what = "frame_map.missing_frame".into();
                                break;
                            }
                            Some(gv) if !same_frame(gv, v) => {
                                what = if gv.short_name != v.short_name {
                                    "frame.short_name"
                                } else if gv.pdus.len() != v.pdus.len() {
                                    "frame.pdu_count"
                                } else if gv.application_id != v.application_id || gv.context_id != v.context_id {
                                    "frame.app_or_context"
                                } else if gv.message_type != v.message_type || gv.message_info != v.message_info {
                                    "frame.message_type_or_info"
                                } else if gv.pdus.iter().zip(&v.pdus).any(|(a, b)| a.description != b.description) {
                                    "frame.pdus.order_or_description"
                                } else {
                                    "frame.pdus.signal_types"
                                }
                                .to_string();
                                break;
                            }
                            _ => {}
                        }
                    }
                    ctx.violation("model.frame_map", &what, || detail(format!("{}: got {}\nexpected {}", what, trunc(&format!("{:?}", g.frame_map), 2500), trunc(&format!("{:?}", e.frame_map), 2500))));
                }
                let keyed_equal = g_keyed.len() == e.keyed.len() && e.keyed.iter().all(|(k, v)| g_keyed.get(k).map_or(false, |gv| same_frame(gv, v)));
                if !keyed_equal {
                    ok = false;
                    ctx.violation("model.frame_map_with_key", if g_keyed.len() != e.keyed.len() { "keys" } else { "values" }, || {
                        detail(format!("got {}\nexpected {}", trunc(&format!("{:?}", g.frame_map_with_key), 2500), trunc(&format!("{:?}", e.keyed), 2500)))
                    });
                }
                if ok {
                    ctx.obs("ok.model_equal");
                    if layout.files.len() > 1 {
                        ctx.obs("ok.model_equal.multi_file");
                    }
                    if dup_frames || dup_pdus {
                        ctx.obs("ok.model_equal.with_duplicates");
                    }
                }
                // lookups
                for (id, meta) in &e.frame_map {
                    if let Some(nr) = id.strip_prefix("ID_").and_then(|s| s.parse::<u32>().ok()) {
                        if format!("ID_{}", nr) != *id {
                            continue;
                        }
                        ctx.eval();
                        match guarded(|| extract_metadata(&g, nr, None).cloned()) {
                            Ok(Some(m)) if same_frame(&m, meta) => ctx.obs("ok.lookup_by_id"),
                            Ok(other) => ctx.violation("lookup.by_frame_id", "mismatch", || detail(format!("lookup of {} without extended header gave {:?}", id, other.map(|m| m.short_name)))),
                            Err(p) => ctx.panic_violation("lookup.no_panic", &p, || detail("extract_metadata".into())),
                        }
                        // with an extended header whose ids do not match any keyed frame -> None, not the id-only frame
                        let eh = ExtendedHeader {
                            verbose: false,
                            argument_count: 0,
                            message_type: MessageType::Log(LogLevel::Info),
                            application_id: "\u{1}none".into(),
                            context_id: "\u{1}none".into(),
                        };
                        ctx.eval();
                        match guarded(|| extract_metadata(&g, nr, Some(&eh)).cloned()) {
                            Ok(None) => ctx.obs("ok.lookup_unknown_key_is_none"),
                            Ok(Some(m)) => ctx.violation("lookup.uses_extended_header_ids", "found", || detail(format!("lookup of {} with foreign app/context ids returned frame {:?}", id, m.short_name))),
                            Err(p) => ctx.panic_violation("lookup.no_panic", &p, || detail("extract_metadata".into())),
                        }
                    }
                }
                for ((k_ctx, k_app, k_frame), meta) in &e.keyed {
                    let k = FrameMetadataIdentification {
                        context_id: k_ctx.clone(),
                        app_id: k_app.clone(),
                        frame_id: k_frame.clone(),
                    };
                    if let Some(nr) = k.frame_id.strip_prefix("ID_").and_then(|s| s.parse::<u32>().ok()) {
                        if format!("ID_{}", nr) != k.frame_id {
                            continue;
                        }
                        let eh = ExtendedHeader {
                            verbose: true,
                            argument_count: 3,
                            message_type: MessageType::Log(LogLevel::Warn),
                            application_id: k.app_id.clone(),
                            context_id: k.context_id.clone(),
                        };
                        ctx.eval();
                        match guarded(|| extract_metadata(&g, nr, Some(&eh)).cloned()) {
                            Ok(Some(m)) if same_frame(&m, meta) => ctx.obs("ok.lookup_by_key"),
                            Ok(other) => ctx.violation("lookup.by_context_app_frame", "mismatch", || detail(format!("lookup of {:?} gave {:?}", k, other.map(|m| m.short_name)))),
                            Err(p) => ctx.panic_violation("lookup.no_panic", &p, || detail("extract_metadata".into())),
                        }
                        // ids cut to the 4 bytes a wire id can hold are different ids
                        let cut = |t: &str| -> String { t.chars().take(4).collect() };
                        if cut(&k.app_id) != k.app_id || cut(&k.context_id) != k.context_id {
                            let short = FrameMetadataIdentification {
                                context_id: cut(&k.context_id),
                                app_id: cut(&k.app_id),
                                frame_id: k.frame_id.clone(),
                            };
                            let eh3 = ExtendedHeader {
                                application_id: short.app_id.clone(),
                                context_id: short.context_id.clone(),
                                ..eh.clone()
                            };
                            let want = e.keyed.get(&(short.context_id.clone(), short.app_id.clone(), short.frame_id.clone()));
                            ctx.eval();
                            match guarded(|| extract_metadata(&g, nr, Some(&eh3)).cloned()) {
                                Ok(got3) if (got3.is_none() && want.is_none()) || matches!((&got3, want), (Some(a), Some(b)) if same_frame(a, b)) => ctx.obs("ok.lookup_with_truncated_ids"),
                                Ok(got3) => ctx.violation("lookup.by_context_app_frame", "truncated_ids", || detail(format!("lookup of {:?} gave {:?}, expected {:?}", short, got3.map(|m| m.short_name), want.map(|m| m.short_name.clone())))),
                                Err(p) => ctx.panic_violation("lookup.no_panic", &p, || detail("extract_metadata".into())),
                            }
                        }
                        // app and context swapped must not find it (unless that key exists too)
                        if k.app_id != k.context_id {
                            let swapped = FrameMetadataIdentification {
                                context_id: k.app_id.clone(),
                                app_id: k.context_id.clone(),
                                frame_id: k.frame_id.clone(),
                            };
                            if !e.keyed.contains_key(&(swapped.context_id.clone(), swapped.app_id.clone(), swapped.frame_id.clone())) {
                                let eh2 = ExtendedHeader {
                                    application_id: k.context_id.clone(),
                                    context_id: k.app_id.clone(),
                                    ..eh.clone()
                                };
                                ctx.eval();
                                if let Ok(Some(m)) = guarded(|| extract_metadata(&g, nr, Some(&eh2)).cloned()) {
                                    ctx.violation("lookup.by_context_app_frame", "swapped_ids_found", || detail(format!("lookup with swapped app/context ids returned {:?}", m.short_name)));
                                }
                            }
                        }
                    }
                }
                // unknown id
                ctx.eval();
                if let Ok(Some(m)) = guarded(|| extract_metadata(&g, 3_999_999_999, None).cloned()) {
                    ctx.violation("lookup.unknown_id_is_none", "found", || detail(format!("unknown id returned {:?}", m.short_name)));
                }
            }
        }
        // history on the same paths: the files are rewritten with a variant of the same documents that has
        // the same length (two sequence numbers of one PDU swapped), the modification times are put back
        // to what they were (as copy / sync tools and coarse file-system clocks do), and the paths are loaded
        // again: the model returned is the model now written in the files
        if ctx.index % 4 == 2 && exp.is_some() {
            let mut layout2 = layout.clone();
            let mut changed = false;
            'outer: for f in layout2.files.iter_mut() {
                for el in f.iter_mut() {
                    if let El::P(p) = el {
                        for a in 0..p.sigs.len() {
                            for b in a + 1..p.sigs.len() {
                                if p.sigs[a].0.to_string().len() == p.sigs[b].0.to_string().len() && p.sigs[a].1 != p.sigs[b].1 {
                                    let t = p.sigs[a].0;
                                    p.sigs[a].0 = p.sigs[b].0;
                                    p.sigs[b].0 = t;
                                    changed = true;
                                    break 'outer;
                                }
                            }
                        }
                    }
                }
            }
            // (the interpreter has no futimens: the rewrite-and-reload history runs on the other engines)
            if changed && !ctx.miri() {
                let exp2 = expected_metadata(&model, &layout2);
                let mut r2 = rng_before_emission.clone();
                let texts2: Vec<String> = layout2.files.iter().map(|f| emit_file(&mut r2, f)).collect();
                let same_len = texts2.len() == texts.len() && texts2.iter().zip(&texts).all(|(a, b)| a.len() == b.len());
                if same_len && texts2 != texts {
                    let mut ok_io = true;
                    for (pth, t2) in paths.iter().take(texts2.len()).zip(&texts2) {
                        let mt = std::fs::metadata(pth).and_then(|m| m.modified());
                        if std::fs::write(pth, t2).is_err() {
                            ok_io = false;
                        }
                        if let (Ok(mt), Ok(fh)) = (mt, std::fs::OpenOptions::new().write(true).open(pth)) {
                            if fh.set_modified(mt).is_err() {
                                ok_io = false;
                            }
                        } else {
                            ok_io = false;
                        }
                    }
                    if ok_io {
                        ctx.eval();
                        let got2 = guarded(|| gather_fibex_data(FibexConfig { fibex_file_paths: paths.clone() }));
                        let detail2 = |what: String| J::obj().set("files_after_rewrite", J::Arr(texts2.iter().map(|t| J::Str(trunc(t, 4000))).collect())).set("what", what);
                        match (got2, &exp2) {
                            (Err(p), _) => ctx.panic_violation("load.no_panic", &p, || detail2("panic on the second load".into())),
                            (Ok(Some(g2)), Some(e2)) => {
                                let eq = g2.frame_map.len() == e2.frame_map.len() && e2.frame_map.iter().all(|(k, v)| g2.frame_map.get(k).map_or(false, |gv| same_frame(gv, v)));
                                if eq {
                                    ctx.obs("ok.reload_after_same_length_rewrite");
                                } else {
                                    ctx.violation("model.reflects_the_files_as_they_are_now", "same_length_same_mtime_rewrite", || detail2("the second load of rewritten files (same paths, same lengths, same modification times) did not return the rewritten model".into()));
                                }
                            }
                            (Ok(None), Some(_)) => ctx.violation("load.must_succeed", "after_rewrite", || detail2("second load failed".into())),
                            _ => {}
                        }
                    }
                }
            }
        }
        let t0 = texts.first().cloned().unwrap_or_default();
        ctx.sample(|| J::obj().set("files", layout.files.len()).set("first_file", trunc(&t0, 1500)).set("frames", model.frames.len()).set("pdus", model.pdus.len()).set("dangling", model.dangling));
    }

    fn finish(&mut self, _ctx: &mut Ctx) {
        if let Some(d) = &self.dir {
            let _ = std::fs::remove_dir_all(d);
        }
    }

    fn describe(&self, ctx: &Ctx) -> J {
        super::describe(
            "abstract models: 0-12 frames (ids ID_<n> incl. n > 2^31 and non-numeric ids, 1/5 duplicates of an earlier id with different content, 5/6 with manufacturer extension whose four fields are each present 5/6), 0-30 PDUs (1/7 duplicate ids, optional description, 0-6 signal instances with distinct non-contiguous shuffled sequence numbers), signal refs over all S_* names incl. S_FLOA16, S_RAW/S_RAWD, unknown names, and custom signals -> codings -> all A_* base types incl. the A_INT*/A_SINT* synonyms, unsupported base types (open positions, see assumptions), signals without coding, signals whose CODING-REF names a SIGNAL id (chains and cycles), sequence numbers up to usize::MAX in 1 of 24 lists; 1/12 models with a dangling PDU reference. Layouts: 1-4 files with names in no particular order (1 in 10 path lists names a file twice), elements grouped by kind in random order or fully shuffled, random child order inside PDU/FRAME/instances, namespace styles fx:/ho:, none, a:/b:, mixed, prefixed attributes, both <X-REF/> and <X-REF></X-REF>, optional container elements, comments, CRLF/no whitespace, texts with XML escapes and numeric character references, unrelated ECU manufacturer extensions and PROJECT elements. Application / context ids from pools with equal concatenations, trailing blanks and ids longer than 4 bytes sharing their first 4 bytes. Every 4th model is followed by a history on the same paths: the files are rewritten with a same-length variant (two sequence numbers swapped), their modification times restored, and loaded again. Lookups by frame id, by (context, app, frame id), with foreign / swapped / 4-byte-truncated ids and unknown ids. distinct = (#files, grouped?, duplicate frames?, duplicate PDUs?, dangling?, signal vocabulary used, #frames, #PDUs buckets); non-trivial = the model has a frame or PDU",
            &[
                "documents stay inside what the format defines: distinct sequence numbers per parent, non-empty text in mandatory text elements, CODING-REF as an empty element, unique signal and coding ids (the statement fixes 'first wins' only for frames and PDUs)",
                "an empty DESC element means no description",
                "references whose name exists in FIBEX but lies outside the vocabulary the loader supports (S_FLOA16; codings with base type A_BYTEFIELD / A_BITFIELD) are open positions: skipped or mapped to one type, both are accepted (the statement quantifies over the supported vocabulary); references to signals or codings that do not exist, and SIGNAL -> SIGNAL reference chains and cycles that never reach a coding, must be skipped",
            ],
            &[("ok.model_equal", super::scaled(ctx, 10000)), ("ok.model_equal.multi_file", super::scaled(ctx, 5000)), ("ok.model_equal.with_duplicates", super::scaled(ctx, 2000)), ("ok.dangling_pdu_ref_refused", super::scaled(ctx, 500)), ("ok.lookup_by_id", super::scaled(ctx, 10000)), ("ok.lookup_by_key", super::scaled(ctx, 10000)), ("vocab.S_BOOL", 50), ("vocab.S_FLOA16", 50), ("vocab.S_RAW", 50), ("vocab.S_RAWD", 50), ("vocab.S_STRG_UTF8", 50), ("vocab.A_INT8", 50), ("vocab.A_SINT64", 50), ("vocab.A_UNICODE2STRING", 50), ("vocab.A_FLOAT64", 50), ("vocab.A_BYTEFIELD", 50)],
        )
    }
}
