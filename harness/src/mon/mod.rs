//! One monitor (workload + oracle) per property.

use crate::ctx::{Ctx, Monitor};
use crate::json::J;

pub mod c01;
pub mod c02;
pub mod c03;
pub mod c04;
pub mod c05;
pub mod c06;
pub mod c07;
pub mod c09;
pub mod c10;
pub mod c11;
pub mod c12;
pub mod c13;
pub mod c14;
pub mod c15;
pub mod c16;
pub mod c17;
pub mod c18;
pub mod c19;
pub mod huge;

pub fn create(prop: &str) -> Option<Box<dyn Monitor>> {
    Some(match prop {
        "C01" => Box::new(c01::M::default()),
        "C02" => Box::new(c02::M::default()),
        "C03" => Box::new(c03::M::default()),
        "C04" => Box::new(c04::M::default()),
        "C05" => Box::new(c05::M::default()),
        "C06" => Box::new(c06::M::default()),
        "C07" => Box::new(c07::M::new(false)),
        "C08" => Box::new(c07::M::new(true)),
        "C09" => Box::new(c09::M::default()),
        "C10" => Box::new(c10::M::default()),
        "C11" => Box::new(c11::M::default()),
        "C12" => Box::new(c12::M::default()),
        "C13" => Box::new(c13::M::default()),
        "C14" => Box::new(c14::M::default()),
        "C15" => Box::new(c15::M::default()),
        "C16" => Box::new(c16::M::default()),
        "C17" => Box::new(c17::M::default()),
        "C18" => Box::new(c18::M::default()),
        "C19" => Box::new(c19::M::default()),
        _ => return None,
    })
}

/// evidence description helper
pub fn describe(rule: &str, assumptions: &[&str], min_events: &[(&str, u64)]) -> J {
    J::obj()
        .set("rule", rule)
        .set(
            "assumptions",
            J::Arr(assumptions.iter().map(|s| J::Str(s.to_string())).collect()),
        )
        .set(
            "min_events",
            J::Obj(
                min_events
                    .iter()
                    .map(|(k, v)| (k.to_string(), J::Int(*v as i128)))
                    .collect(),
            ),
        )
}

/// scale a per-quick-run minimum to the engine: sanitizer engines run far fewer cases
pub fn scaled(ctx: &Ctx, quick: u64) -> u64 {
    if ctx.thorough() {
        quick * 4
    } else {
        quick
    }
}

pub fn ptr_off(base: &[u8], sub: &[u8]) -> Option<usize> {
    let b = base.as_ptr() as usize;
    let s = sub.as_ptr() as usize;
    if s >= b && s + sub.len() <= b + base.len() {
        Some(s - b)
    } else {
        None
    }
}
