//! C10 — statistics count every message once per id and merge like a sum.
//!
//! (a) exactly-once: a wrapping StatisticCollector logs every visit; the log must equal the
//!     generated message list one-to-one and in order (decoded headers, level, verbose flag,
//!     payload bytes).  (b) the standard collector's tables equal a tally computed from the
//!     generated Message values.  (c) conservation: the ECU entries add up to the number of
//!     messages.  (d) merge: statistics of the parts of any split, merged in any order and
//!     grouping, equal the statistics of the whole.

use crate::ctx::{guarded, Ctx, Monitor};
use crate::gen_msg::{gen_msg, GenOpts};
use crate::iosched::{gen_script, SharedSource, FAMILIES};
use crate::json::{hex_trunc, J};
use crate::refcodec::{msin_bits, ref_encode};
use dlt_core::dlt::*;
use dlt_core::parse::DltParseError;
use dlt_core::read::DltMessageReader;
use dlt_core::statistics::common::{LevelDistribution, StatisticInfo, StatisticInfoCollector};
use dlt_core::statistics::{collect_statistics, Statistic, StatisticCollector};
use std::collections::BTreeMap;

#[derive(Default)]
pub struct M {}

type Buckets = [usize; 8]; // non_log, fatal, error, warning, info, debug, verbose, invalid
type Table = BTreeMap<String, Buckets>;

#[derive(Debug, Clone, PartialEq)]
struct Visit {
    storage: Option<(u32, u32, String)>,
    htyp: u8,
    mcnt: u8,
    ecu: Option<String>,
    sid: Option<u32>,
    tms: Option<u32>,
    payload_len: u16,
    ext: Option<(bool, u8, u8, String, String)>,
    level_bucket: usize,
    is_verbose: bool,
    payload: Vec<u8>,
}

struct Wrapper {
    inner: StatisticInfoCollector,
    visits: Vec<Visit>,
}

fn bucket_of_type(mt: Option<&MessageType>) -> usize {
    match mt {
        Some(MessageType::Log(_)) => {
            let lvl = msin_bits(mt.unwrap()) >> 4;
            if (1..=6).contains(&lvl) {
                lvl as usize
            } else {
                7
            }
        }
        _ => 0,
    }
}

fn bucket_of_level(l: Option<LogLevel>) -> usize {
    match l {
        None => 0,
        Some(LogLevel::Fatal) => 1,
        Some(LogLevel::Error) => 2,
        Some(LogLevel::Warn) => 3,
        Some(LogLevel::Info) => 4,
        Some(LogLevel::Debug) => 5,
        Some(LogLevel::Verbose) => 6,
        Some(LogLevel::Invalid(_)) => 7,
    }
}

impl StatisticCollector for Wrapper {
    fn collect_statistic(&mut self, s: Statistic) -> Result<(), DltParseError> {
        self.visits.push(Visit {
            storage: s.storage_header.as_ref().map(|h| (h.timestamp.seconds, h.timestamp.microseconds, h.ecu_id.clone())),
            htyp: crate::refcodec::htyp_of(&s.standard_header),
            mcnt: s.standard_header.message_counter,
            ecu: s.standard_header.ecu_id.clone(),
            sid: s.standard_header.session_id,
            tms: s.standard_header.timestamp,
            payload_len: s.standard_header.payload_length,
            ext: s.extended_header.as_ref().map(|x| (x.verbose, x.argument_count, msin_bits(&x.message_type), x.application_id.clone(), x.context_id.clone())),
            level_bucket: bucket_of_level(s.log_level),
            is_verbose: s.is_verbose,
            payload: s.payload.to_vec(),
        });
        self.inner.collect_statistic(s)
    }
}

fn visit_of(m: &Message, payload: &[u8]) -> Visit {
    Visit {
        storage: m.storage_header.as_ref().map(|h| (h.timestamp.seconds, h.timestamp.microseconds, h.ecu_id.clone())),
        htyp: crate::refcodec::htyp_of(&m.header),
        mcnt: m.header.message_counter,
        ecu: m.header.ecu_id.clone(),
        sid: m.header.session_id,
        tms: m.header.timestamp,
        payload_len: m.header.payload_length,
        ext: m.extended_header.as_ref().map(|x| (x.verbose, x.argument_count, msin_bits(&x.message_type), x.application_id.clone(), x.context_id.clone())),
        level_bucket: bucket_of_type(m.extended_header.as_ref().map(|x| &x.message_type)),
        is_verbose: m.extended_header.as_ref().map_or(false, |x| x.verbose),
        payload: payload.to_vec(),
    }
}

#[derive(Debug, Clone, PartialEq, Default)]
struct Tally {
    app: Table,
    ctx: Table,
    ecu: Table,
    non_verbose: bool,
}

fn tally(msgs: &[Message]) -> Tally {
    let mut t = Tally::default();
    for m in msgs {
        let b = bucket_of_type(m.extended_header.as_ref().map(|x| &x.message_type));
        let ecu = m.header.ecu_id.clone().unwrap_or_else(|| "NONE".to_string());
        t.ecu.entry(ecu).or_insert([0; 8])[b] += 1;
        if let Some(x) = &m.extended_header {
            t.app.entry(x.application_id.clone()).or_insert([0; 8])[b] += 1;
            t.ctx.entry(x.context_id.clone()).or_insert([0; 8])[b] += 1;
        }
        if !m.extended_header.as_ref().map_or(false, |x| x.verbose) {
            t.non_verbose = true;
        }
    }
    t
}

fn buckets(d: &LevelDistribution) -> Buckets {
    [d.non_log, d.log_fatal, d.log_error, d.log_warning, d.log_info, d.log_debug, d.log_verbose, d.log_invalid]
}

/// result tables as maps; Err when an id occurs twice in a vector
fn tables(s: &StatisticInfo) -> Result<Tally, String> {
    let conv = |v: &Vec<(String, LevelDistribution)>, what: &str| -> Result<Table, String> {
        let mut t = Table::new();
        for (id, d) in v {
            if t.insert(id.clone(), buckets(d)).is_some() {
                return Err(format!("id {:?} occurs twice in {}", id, what));
            }
        }
        Ok(t)
    };
    Ok(Tally {
        app: conv(&s.app_ids, "app_ids")?,
        ctx: conv(&s.context_ids, "context_ids")?,
        ecu: conv(&s.ecu_ids, "ecu_ids")?,
        non_verbose: s.contained_non_verbose,
    })
}

fn collect(bytes: &[u8], wsh: bool, ctx: &mut Ctx, fragmented: bool) -> Result<(Vec<Visit>, StatisticInfo), String> {
    let script = if fragmented {
        let fam = 1 + ctx.rng.usize_below(FAMILIES.len() - 1);
        let sys = ctx.rng.next();
        gen_script(&mut ctx.rng, fam, bytes.len(), sys)
    } else {
        crate::iosched::Script::whole()
    };
    let (src, _h) = SharedSource::new(bytes.to_vec(), script);
    // mostly explicit capacities, 1 in 6 the default constructor (10 MiB read buffer)
    let mut reader = if !ctx.light() && ctx.rng.chance(1, 6) {
        ctx.obs("reader.new");
        DltMessageReader::new(src, wsh)
    } else {
        DltMessageReader::with_capacity(65551, 65551, src, wsh)
    };
    let mut w = Wrapper {
        inner: StatisticInfoCollector::default(),
        visits: vec![],
    };
    match guarded(|| collect_statistics(&mut reader, &mut w)) {
        Err(p) => Err(format!("panic@{}: {}", p.loc, p.msg)),
        Ok(Err(e)) => Err(format!("error: {:?}", e)),
        Ok(Ok(())) => Ok((w.visits, w.inner.collect())),
    }
}

fn diff_tally(a: &Tally, b: &Tally) -> Option<String> {
    if a.ecu != b.ecu {
        return Some("ecu_ids".into());
    }
    if a.app != b.app {
        return Some("app_ids".into());
    }
    if a.ctx != b.ctx {
        return Some("context_ids".into());
    }
    if a.non_verbose != b.non_verbose {
        return Some("contained_non_verbose".into());
    }
    None
}

impl Monitor for M {
    fn case(&mut self, ctx: &mut Ctx) {
        let light = ctx.light();
        let wsh = ctx.rng.chance(1, 2);
        let n = if light {
            ctx.rng.range(0, 5)
        } else {
            match ctx.rng.below(10) {
                0 => 0,
                1 => ctx.rng.range(100, 400),
                _ => ctx.rng.range(1, 40),
            }
        } as usize;
        // 1 stream in 50: several hundred messages whose ids are all different (hundreds of distinct ids of each
        // kind on both sides of every merge; tables that change their strategy with size show here)
        let unique_ids = !light && ctx.rng.chance(1, 50);
        let n = if unique_ids { ctx.rng.range(300, 900) as usize } else { n };
        if unique_ids {
            ctx.obs("stream.hundreds_of_distinct_ids");
        }
        let id_salt = ctx.rng.below(1_000_000);
        let id4 = |i: usize, k: u64| -> String {
            let mut v = ((i as u64) * 7919 + id_salt + k * 500_009) % 1_679_616;
            let mut s = String::new();
            for _ in 0..4 {
                s.push(b"0123456789ABCDEFGHIJKLMNOPQRSTUVWXYZ"[(v % 36) as usize] as char);
                v /= 36;
            }
            s
        };
        let pool_size = *ctx.rng.pick(&[1usize, 2, 3, 8, 12]);
        // ids that are easily confused: the literal "NONE" (the collector's name for "no ECU id"),
        // ids differing only in trailing blanks, the storage-header pattern
        let mut pool: Vec<String> = ["A", "B", "", "DDDD", "é", "NONE", "x y", "ZZ", "AB", "AB  ", "AB ", "DLT\u{1}"].iter().map(|s| s.to_string()).collect();
        if pool_size == 12 || ctx.rng.chance(1, 3) {
            ctx.rng.shuffle(&mut pool);
        }
        pool.truncate(pool_size);
        let large_pool = ctx.rng.chance(1, 4);
        let mut o = GenOpts::small();
        o.force_storage = Some(wsh);
        o.typical_total = 60;
        if light {
            o.max_total = 60;
            o.typical_total = 40;
        }
        // some streams are all-verbose so that contained_non_verbose == false occurs
        let all_verbose = ctx.rng.chance(1, 4);
        if all_verbose {
            o.force_kind = Some(crate::gen_msg::PKind::Verbose);
        }
        let mut msgs: Vec<Message> = vec![];
        let mut bytes: Vec<u8> = vec![];
        let mut bounds: Vec<usize> = vec![0];
        let mut payloads: Vec<Vec<u8>> = vec![];
        // 1 stream in 60 carries a message with one of the 16 largest declarable lengths
        let near_max_at = if !light && n > 0 && ctx.rng.chance(1, 60) { ctx.rng.usize_below(n) } else { usize::MAX };
        for i in 0..n {
            let mut m = if i == near_max_at {
                ctx.obs("stream.with_near_max_message");
                let mut oo = GenOpts::near_max(&mut ctx.rng);
                oo.force_storage = Some(wsh);
                if all_verbose {
                    oo.force_kind = Some(crate::gen_msg::PKind::Verbose);
                }
                gen_msg(&mut ctx.rng, &oo)
            } else {
                gen_msg(&mut ctx.rng, &o)
            };
            if unique_ids {
                if let Some(x) = m.extended_header.as_mut() {
                    x.application_id = id4(i, 0);
                    x.context_id = id4(i, 1);
                }
                if m.header.ecu_id.is_some() {
                    m.header.ecu_id = Some(id4(i, 2));
                }
            } else if !large_pool {
                if let Some(x) = m.extended_header.as_mut() {
                    x.application_id = ctx.rng.pick(&pool).clone();
                    x.context_id = ctx.rng.pick(&pool).clone();
                }
                if m.header.ecu_id.is_some() {
                    m.header.ecu_id = Some(ctx.rng.pick(&pool).clone());
                }
            }
            if let Some(x) = m.extended_header.as_mut() {
                // every level bucket, invalid levels and non-log types
                if ctx.rng.chance(2, 3) && !matches!(m.payload, PayloadContent::ControlMsg(..) | PayloadContent::NetworkTrace(_)) {
                    x.message_type = crate::refcodec::mtype_of((ctx.rng.below(16) as u8) << 4);
                }
            }
            let e = ref_encode(&m);
            let mut mb = e.bytes.clone();
            // 1 in 8 messages carries an id field as real ECUs write them (bytes that are not UTF-8, an
            // early NUL): the decoded id, and hence the bucket it is counted under, is the clean prefix
            if ctx.rng.chance(1, 8) {
                let raw: [u8; 4] = *ctx.rng.pick(&[[b'A', b'P', 0xFF, 0], [b'E', b'C', 0xDC, b'1'], [b'Z', b'Z', 0xC3, 0], [0, b'B', b'C', b'D'], [b'A', 0, b'C', b'D'], [0xE4, b'B', b'C', 0], [b'A', b'B', b' ', 0xFE]]);
                let which = *ctx.rng.pick(&["storage.ecu", "std.ecu", "std.ecu", "ext.apid", "ext.ctid"]);
                if let Some(f) = e.find(which) {
                    mb[f.start..f.end].copy_from_slice(&raw);
                    let clean = String::from_utf8_lossy(crate::refcodec::field_value(&raw)).into_owned();
                    match which {
                        "storage.ecu" => m.storage_header.as_mut().unwrap().ecu_id = clean,
                        "std.ecu" => m.header.ecu_id = Some(clean),
                        "ext.apid" => m.extended_header.as_mut().unwrap().application_id = clean,
                        _ => m.extended_header.as_mut().unwrap().context_id = clean,
                    }
                    ctx.obs("messages.with_dialect_id");
                }
            }
            payloads.push(mb[e.payload_start..].to_vec());
            bytes.extend_from_slice(&mb);
            bounds.push(bytes.len());
            msgs.push(m);
        }
        ctx.eval();
        ctx.mark(1);
        let detail = |what: String| {
            J::obj()
                .set("stream_hex", hex_trunc(&bytes, 300))
                .set("stream_len", bytes.len())
                .set("messages", n)
                .set("with_storage_header", wsh)
                .set("what", what)
        };
        // history: collectors that were used and then thrown away without collect() — after a stream that
        // was read to the end, and after one that failed in the middle — must leave nothing behind that a
        // later, fresh collector could pick up
        if ctx.rng.chance(1, 4) && !bytes.is_empty() {
            let damaged = ctx.rng.chance(1, 2);
            let mut other = bytes.clone();
            if damaged {
                // a declared length below the header size somewhere behind the first message: an error mid-stream
                let at = bounds[bounds.len() / 2].min(other.len().saturating_sub(4)) + if wsh { 16 } else { 0 };
                if at + 4 <= other.len() {
                    other[at + 2] = 0;
                    other[at + 3] = 1;
                }
            }
            let (src, _h) = SharedSource::new(other, crate::iosched::Script::whole());
            let mut reader = DltMessageReader::with_capacity(65551, 65551, src, wsh);
            let mut discarded = StatisticInfoCollector::default();
            let _ = guarded(|| collect_statistics(&mut reader, &mut discarded));
            drop(discarded);
            ctx.obs(if damaged { "history.collector_discarded_after_error" } else { "history.collector_discarded_unused_result" });
        }
        let exp = tally(&msgs);
        let hit: usize = (0..8).filter(|&b| exp.ecu.values().any(|v| v[b] > 0)).count();
        let (visits, info) = match collect(&bytes, wsh, ctx, true) {
            Ok(x) => x,
            Err(why) => {
                ctx.violation("collect.completes", if why.starts_with("panic") { "panic" } else { "error" }, || detail(why.clone()));
                return;
            }
        };
        // (a) exactly once, in order
        let want: Vec<Visit> = msgs.iter().zip(&payloads).map(|(m, p)| visit_of(m, p)).collect();
        if visits.len() != want.len() {
            ctx.violation("visits.exactly_once", if visits.len() > want.len() { "more" } else { "fewer" }, || detail(format!("{} visits for {} messages", visits.len(), want.len())));
        } else if let Some(i) = (0..want.len()).find(|&i| visits[i] != want[i]) {
            let field = if visits[i].payload != want[i].payload {
                "payload"
            } else if visits[i].level_bucket != want[i].level_bucket {
                "log_level"
            } else if visits[i].is_verbose != want[i].is_verbose {
                "is_verbose"
            } else if visits[i].ext != want[i].ext {
                "extended_header"
            } else if visits[i].storage != want[i].storage {
                "storage_header"
            } else {
                "standard_header"
            };
            ctx.violation("visits.in_order_with_decoded_headers", field, || detail(format!("visit {} differs in {}: got {:?}, expected {:?}", i, field, visits[i], want[i])));
        } else {
            ctx.obs("visits.ok");
            ctx.obs_n("visits.messages", want.len() as u64);
        }
        // (b) tally
        let got = match tables(&info) {
            Ok(t) => t,
            Err(why) => {
                ctx.violation("result.no_duplicate_ids", "dup", || detail(why.clone()));
                return;
            }
        };
        if let Some(d) = diff_tally(&got, &exp) {
            ctx.violation("result.equals_independent_tally", &d, || detail(format!("{}: got {:?}\n expected {:?}", d, got, exp)));
        } else {
            ctx.obs("tally.ok");
            for b in 0..8 {
                if exp.ecu.values().any(|v| v[b] > 0) {
                    ctx.obs_dyn(format!("bucket_nonzero.{}", ["non_log", "fatal", "error", "warning", "info", "debug", "verbose", "invalid"][b]));
                }
            }
            ctx.obs(if exp.non_verbose { "non_verbose.true" } else { "non_verbose.false" });
        }
        // (c) conservation
        let total: usize = got.ecu.values().map(|v| v.iter().sum::<usize>()).sum();
        if total != n {
            ctx.violation("result.ecu_totals_equal_message_count", if total > n { "more" } else { "fewer" }, || detail(format!("ECU totals {} for {} messages", total, n)));
        } else {
            ctx.obs("conservation.ok");
        }
        // (d) merge histories
        let histories = if light { 1 } else { 4 };
        for hno in 0..histories {
            ctx.eval();
            ctx.mark(2 + hno);
            let k = if n == 0 { 0 } else { ctx.rng.usize_below(n.min(7) + 1) };
            let mut cuts: Vec<usize> = (0..k).map(|_| ctx.rng.usize_below(n + 1)).collect();
            cuts.push(0);
            cuts.push(n);
            cuts.sort_unstable();
            // duplicates give empty parts: merging with empty statistics is the identity
            let mut parts: Vec<StatisticInfo> = vec![];
            let mut failed = false;
            for w in cuts.windows(2) {
                let part = &bytes[bounds[w[0]]..bounds[w[1]]];
                match collect(part, wsh, ctx, false) {
                    Ok((_, s)) => parts.push(s),
                    Err(why) => {
                        ctx.violation("collect.completes", "part", || detail(why.clone()));
                        failed = true;
                        break;
                    }
                }
            }
            if failed {
                break;
            }
            let nparts = parts.len();
            let shape_name = ["left_fold", "right_fold", "balanced", "random"][hno as usize % 4];
            let merged = guarded(|| match hno % 4 {
                0 => {
                    let mut acc = StatisticInfo::new();
                    for p in parts {
                        acc.merge(p);
                    }
                    acc
                }
                1 => {
                    let mut acc = StatisticInfo::new();
                    for mut p in parts.into_iter().rev() {
                        p.merge(acc);
                        acc = p;
                    }
                    acc
                }
                2 => {
                    let mut level = parts;
                    while level.len() > 1 {
                        let mut next = vec![];
                        let mut it = level.into_iter();
                        while let Some(mut a) = it.next() {
                            if let Some(b) = it.next() {
                                a.merge(b);
                            }
                            next.push(a);
                        }
                        level = next;
                    }
                    level.pop().unwrap_or_default()
                }
                _ => {
                    // random permutation and association (deterministic from the case rng state captured below)
                    let mut level = parts;
                    let mut seed = 0x9E37u64 + level.len() as u64 * 31 + hno as u64;
                    while level.len() > 1 {
                        seed = seed.wrapping_mul(6364136223846793005).wrapping_add(1442695040888963407);
                        let i = (seed >> 33) as usize % level.len();
                        let a = level.swap_remove(i);
                        seed = seed.wrapping_mul(6364136223846793005).wrapping_add(1442695040888963407);
                        let j = (seed >> 33) as usize % level.len();
                        level[j].merge(a);
                    }
                    level.pop().unwrap_or_default()
                }
            });
            ctx.shape(&(wsh, pool_size, large_pool, hit, nparts.min(9), shape_name, n.min(50) / 5), n > 0);
            match merged {
                Err(p) => ctx.panic_violation("merge.no_panic", &p, || detail(format!("merge shape {}", shape_name))),
                Ok(s) => match tables(&s) {
                    Err(why) => ctx.violation("merge.no_duplicate_ids", shape_name, || detail(why.clone())),
                    Ok(t) => {
                        if let Some(d) = diff_tally(&t, &exp) {
                            ctx.violation("merge.equals_whole", &format!("{}:{}", shape_name, d), || detail(format!("split at {:?}, merged {}: {} differs: got {:?}\n expected {:?}", cuts, shape_name, d, t, exp)));
                        } else {
                            ctx.obs("merge.ok");
                            ctx.obs_dyn(format!("merge.ok.{}", shape_name));
                            if cuts.windows(2).any(|w| w[0] == w[1]) {
                                ctx.obs("merge.ok_with_empty_part");
                            }
                        }
                    }
                },
            }
        }
        ctx.sample(|| detail(format!("tally {:?}", exp)));
    }

    fn describe(&self, ctx: &Ctx) -> J {
        super::describe(
            "streams of 0-400 reference-encoded messages (10 % empty, 10 % long), ids from pools of 1/2/3/8/12 (collisions, incl. the empty id, the literal 'NONE', ids differing only in trailing blanks, the storage-header pattern) or unconstrained, 1 in 8 messages with a dialect id field (non-UTF-8 bytes or an early NUL: counted under the clean prefix), 1 in 60 streams with a message of one of the 16 largest declarable lengths, 1 in 6 readers built with DltMessageReader::new, 2/3 of the non-control messages forced to log type over all 16 level codes, 1/4 of the streams all-verbose, both storage modes, fed to collect_statistics through a scripted source with a random fragmentation family; a wrapping collector logs every visit; before 1 in 4 streams a collector is fed the stream (intact or damaged mid-way) and dropped without collect(). Each stream is then split at 0-7 random message boundaries (empty parts allowed) and the parts' statistics merged as left fold, right fold, balanced tree and random permutation/association. distinct = (storage mode, id-pool size, buckets hit, number of parts, merge shape, stream length bucket); non-trivial = non-empty stream",
            &["the id a message is counted under is the clean prefix of its 4-byte field (C19 rule): bytes before the first NUL, cut at the first invalid UTF-8 sequence", "vector order in the result is unspecified and not compared; tables are compared as maps, a duplicated id is a violation", "contained_non_verbose is true iff some message lacks (extended header and verbose flag)"],
            &[
                ("visits.ok", super::scaled(ctx, 10000)),
                ("tally.ok", super::scaled(ctx, 10000)),
                ("merge.ok", super::scaled(ctx, 40000)),
                ("merge.ok_with_empty_part", 1000),
                ("bucket_nonzero.non_log", 100),
                ("bucket_nonzero.fatal", 100),
                ("bucket_nonzero.error", 100),
                ("bucket_nonzero.warning", 100),
                ("bucket_nonzero.info", 100),
                ("bucket_nonzero.debug", 100),
                ("bucket_nonzero.verbose", 100),
                ("bucket_nonzero.invalid", 100),
                ("non_verbose.true", 100),
                ("non_verbose.false", 100),
            ],
        )
    }
}
