//! C07 — the blocking reader equals slice parsing for every fragmentation of the source.
//! C08 — the async reader delivers what the blocking reader delivers, on any schedule.
//!
//! C07 oracle: independent reference framing (cut the stream at the declared lengths, parse each
//! piece with dlt_message) vs the observed history of read_message under a scripted source
//! (short reads, one byte at a time, ErrorKind::Interrupted at read boundaries).
//! C08 oracle: history of read::read_message on an always-complete source vs the history of
//! stream::read_message under a schedule of Poll::Pending / Ready(k), driven by a counting
//! poll loop.

use crate::ctx::{guarded, Ctx, Monitor, Panic};
use crate::gen_msg::{gen_msg, GenOpts};
use crate::iosched::{block_on_counted, gen_script, PollStats, Script, SharedSource, FAMILIES};
use crate::json::{hex_trunc, J};
use crate::refcodec::{diff_msg, ref_encode};
use dlt_core::filtering::{DltFilterConfig, ProcessedDltFilterConfig};
use dlt_core::parse::{dlt_message, DltParseError, ParsedMessage};
use dlt_core::read::DltMessageReader;
use dlt_core::stream::DltStreamReader;
use std::collections::HashSet;

pub struct M {
    is_async: bool,
    keep: ProcessedDltFilterConfig,
    drop: ProcessedDltFilterConfig,
    level: ProcessedDltFilterConfig,
    schedules: HashSet<u64>,
}

impl M {
    pub fn new(is_async: bool) -> M {
        let mk = |lvl: Option<u8>, apps: Option<Vec<&str>>, cnt: i64| -> ProcessedDltFilterConfig {
            DltFilterConfig {
                min_log_level: lvl,
                app_ids: apps.map(|v| v.into_iter().map(String::from).collect()),
                ecu_ids: None,
                context_ids: None,
                app_id_count: cnt,
                context_id_count: 0,
            }
            .into()
        };
        M {
            is_async,
            keep: mk(Some(6), None, 0),
            drop: mk(Some(1), Some(vec!["\u{1}no"]), 9),
            level: mk(Some(3), None, 0),
            schedules: HashSet::new(),
        }
    }
}

#[derive(Debug)]
enum Obs {
    Msg(ParsedMessage),
    End,
    Err(&'static str),
    Panicked(Panic),
}

fn err_class(e: &DltParseError) -> &'static str {
    match e {
        DltParseError::Unrecoverable(_) => "unrecoverable",
        DltParseError::ParsingHickup(_) => "hickup",
        DltParseError::IncompleteParse { .. } => "incomplete",
    }
}

fn obs_name(o: &Obs) -> String {
    match o {
        Obs::Msg(ParsedMessage::Item(_)) => "item".into(),
        Obs::Msg(ParsedMessage::FilteredOut(n)) => format!("filtered({})", n),
        Obs::Msg(ParsedMessage::Invalid) => "invalid".into(),
        Obs::End => "end".into(),
        Obs::Err(c) => format!("err({})", c),
        Obs::Panicked(p) => format!("panic@{}", p.loc),
    }
}

fn same_parsed(a: &ParsedMessage, b: &ParsedMessage) -> Option<String> {
    match (a, b) {
        (ParsedMessage::Item(x), ParsedMessage::Item(y)) => diff_msg(x, y, false),
        (ParsedMessage::FilteredOut(x), ParsedMessage::FilteredOut(y)) if x == y => None,
        (ParsedMessage::Invalid, ParsedMessage::Invalid) => None,
        _ => Some("kind".into()),
    }
}

enum Exp {
    Piece(Result<ParsedMessage, &'static str>, usize, usize),
    End,
    TruncatedTail,
    ShortLen(usize),
    RefPanic,
}

fn exp_name(e: &Exp) -> String {
    match e {
        Exp::Piece(Ok(ParsedMessage::Item(_)), a, b) => format!("item[{}..{}]", a, b),
        Exp::Piece(Ok(ParsedMessage::FilteredOut(n)), a, b) => format!("filtered({})[{}..{}]", n, a, b),
        Exp::Piece(Ok(ParsedMessage::Invalid), a, b) => format!("invalid[{}..{}]", a, b),
        Exp::Piece(Err(c), a, b) => format!("err({})[{}..{}]", c, a, b),
        Exp::End => "end".into(),
        Exp::TruncatedTail => "truncated-tail(end or error, never a message)".into(),
        Exp::ShortLen(l) => format!("declared-length-{}-below-header(no panic, no message)", l),
        Exp::RefPanic => "slice-parser-panicked".into(),
    }
}

/// reference framing, written independently of the readers
fn expected(stream: &[u8], wsh: bool, filter: Option<&ProcessedDltFilterConfig>) -> Vec<Exp> {
    let s = if wsh { 16 } else { 0 };
    let mut o = 0usize;
    let mut out = vec![];
    loop {
        if stream.len() - o < s + 4 {
            out.push(Exp::End);
            return out;
        }
        let l = u16::from_be_bytes([stream[o + s + 2], stream[o + s + 3]]) as usize;
        if l < 4 {
            out.push(Exp::ShortLen(l));
            return out;
        }
        if o + s + l > stream.len() {
            out.push(Exp::TruncatedTail);
            return out;
        }
        let piece = &stream[o..o + s + l];
        match guarded(|| dlt_message(piece, filter, wsh)) {
            Ok(Ok((_, pm))) => out.push(Exp::Piece(Ok(pm), o, o + s + l)),
            Ok(Err(e)) => out.push(Exp::Piece(Err(err_class(&e)), o, o + s + l)),
            Err(_) => {
                out.push(Exp::RefPanic);
                return out;
            }
        }
        o += s + l;
    }
}

struct StreamCase {
    bytes: Vec<u8>,
    wsh: bool,
    class: &'static str,
    n_msgs: usize,
    /// longest declared piece (storage header included) when every declared length of the
    /// stream is known to the generator (well-formed framing); None for hostile / arbitrary bytes
    max_piece: Option<usize>,
}

/// reader construction: the default capacities, `new` (10 MiB buffer), or custom ones
#[derive(Clone, Copy, Debug, PartialEq)]
enum Caps {
    Default,
    New,
    Custom(usize, usize),
}

impl Caps {
    fn name(&self) -> &'static str {
        match self {
            Caps::Default => "with_capacity(65551,65551)",
            Caps::New => "new",
            Caps::Custom(b, m) if *m < 65551 => {
                let _ = b;
                "with_capacity(tight)"
            }
            Caps::Custom(..) => "with_capacity(large)",
        }
    }
}

fn gen_stream(ctx: &mut Ctx, light: bool) -> StreamCase {
    let wsh = ctx.rng.chance(1, 2);
    let mut o = GenOpts::small();
    o.force_storage = Some(wsh);
    if light {
        o.max_total = 60;
        o.typical_total = 40;
    }
    let mut class_sel = ctx.rng.below(20);
    let nmax = if ctx.rng.chance(1, 8) { 30 } else { 6 };
    let mut n = if light { ctx.rng.range(0, 3) } else { ctx.rng.range(0, nmax) } as usize;
    // rare heavy classes: a message with one of the 16 largest declarable lengths (with a storage
    // header it is exactly as long as, or a few bytes shorter than, the default message buffer),
    // and a long history on one reader (> 4 MiB handed out by a single reader object)
    let near_max = !light && ctx.rng.chance(1, 50);
    let long_history = !light && !near_max && ctx.index % 3001 == 17;
    if near_max || long_history {
        class_sel = 0;
        // 150-320 messages of ~30 KiB on average: 4-10 MiB through one reader; 1 in 8 around 25-45 MiB
        n = if long_history {
            if ctx.rng.chance(1, 8) {
                ctx.rng.range(800, 1400) as usize
            } else {
                ctx.rng.range(150, 320) as usize
            }
        } else {
            ctx.rng.range(1, 4) as usize
        };
    }
    let near_max_at = if near_max { ctx.rng.usize_below(n) } else { usize::MAX };
    let mut bytes = vec![];
    let mut starts = vec![];
    let mut max_piece = 0usize;
    for i in 0..n {
        starts.push(bytes.len());
        let mut oo = o.clone();
        if i == near_max_at || (long_history && ctx.rng.chance(9, 10)) {
            oo = GenOpts::near_max(&mut ctx.rng);
            oo.force_storage = Some(wsh);
            if long_history && ctx.rng.chance(1, 2) {
                oo.force_exact = false;
                oo.typical_total = 65000;
            }
        } else if !light && i == 0 && ctx.rng.chance(1, 40) {
            // one large message, up to the 16-bit limit
            oo = GenOpts::normal();
            oo.force_storage = Some(wsh);
            oo.typical_total = 65000;
        }
        let m = gen_msg(&mut ctx.rng, &oo);
        let e = ref_encode(&m);
        max_piece = max_piece.max(e.bytes.len());
        if class_sel == 10 && ctx.rng.chance(1, 2) {
            // payload-level damage that keeps the framing intact: mid-stream parse errors
            let mut b = e.bytes.clone();
            if b.len() > e.payload_start {
                let i = e.payload_start + ctx.rng.usize_below(b.len() - e.payload_start);
                b[i] = ctx.rng.u8();
            }
            if let Some(f) = e.find("ext.noar") {
                if ctx.rng.chance(1, 2) {
                    b[f.start] = b[f.start].wrapping_add(1);
                }
            }
            bytes.extend_from_slice(&b);
        } else {
            bytes.extend_from_slice(&e.bytes);
        }
    }
    let s = if wsh { 16 } else { 0 };
    match class_sel {
        0..=6 => StreamCase {
            bytes,
            wsh,
            class: if long_history {
                "long_history"
            } else if near_max {
                "near_max"
            } else {
                "wellformed"
            },
            n_msgs: n,
            max_piece: Some(max_piece),
        },
        7..=9 => {
            // truncated inside the last two messages (every offset is reached through the case index)
            if n == 0 {
                return StreamCase {
                    bytes,
                    wsh,
                    class: "wellformed",
                    n_msgs: 0,
                    max_piece: Some(0),
                };
            }
            let from = starts[n.saturating_sub(2)];
            let span = bytes.len() - from;
            let cut = from + (ctx.index as usize / 7) % span.max(1);
            bytes.truncate(cut);
            StreamCase {
                bytes,
                wsh,
                class: "truncated",
                n_msgs: n,
                max_piece: Some(max_piece),
            }
        }
        10 => StreamCase {
            bytes,
            wsh,
            class: "payload_damaged",
            n_msgs: n,
            max_piece: Some(max_piece),
        },
        11..=14 => {
            // hostile length fields
            let mut tail = vec![];
            if wsh {
                tail.extend_from_slice(&[0x44, 0x4C, 0x54, 0x01]);
                tail.extend(ctx.rng.bytes(12));
            }
            let htyp = ctx.rng.u8();
            let hl = crate::refcodec::headers_len(htyp);
            let body_n = ctx.rng.size(10, 60);
            let l: usize = match ctx.rng.below(8) {
                0 => 0,
                1 => 1,
                2 => 2,
                3 => 3,
                4 => hl.saturating_sub(1),
                5 => body_n + hl + ctx.rng.range(1, 500) as usize, // beyond the stream
                6 => 65535,
                _ => ctx.rng.usize_below(hl + 2),
            };
            tail.extend_from_slice(&[htyp, ctx.rng.u8(), (l >> 8) as u8, l as u8]);
            tail.extend(ctx.rng.bytes(body_n));
            if ctx.rng.chance(1, 2) {
                // a valid message behind the hostile one
                let m = gen_msg(&mut ctx.rng, &o);
                tail.extend_from_slice(&ref_encode(&m).bytes);
            }
            bytes.extend_from_slice(&tail);
            let _ = s;
            StreamCase {
                bytes,
                wsh,
                class: "hostile_length",
                n_msgs: n,
                max_piece: None,
            }
        }
        _ => {
            let n = ctx.rng.size(30, if light { 80 } else { 3000 });
            let mut b = ctx.rng.bytes(n);
            // small declared lengths keep arbitrary streams interesting (many pieces)
            if ctx.rng.chance(1, 2) {
                let mut i = s + 2;
                while i + 1 < b.len() {
                    b[i] = 0;
                    i += 1 + ctx.rng.usize_below(40);
                }
            }
            StreamCase {
                bytes: b,
                wsh,
                class: "arbitrary",
                n_msgs: 0,
                max_piece: None,
            }
        }
    }
}

fn run_blocking(bytes: &[u8], wsh: bool, script: Script, filter: Option<&ProcessedDltFilterConfig>, max_calls: usize, caps: Caps) -> (Vec<Obs>, crate::iosched::ReadLog) {
    let (src, handle) = SharedSource::new(bytes.to_vec(), script);
    let mut reader = match caps {
        Caps::New => DltMessageReader::new(src, wsh),
        Caps::Default => DltMessageReader::with_capacity(65551, 65551, src, wsh),
        Caps::Custom(b, m) => DltMessageReader::with_capacity(b, m, src, wsh),
    };
    let mut out = vec![];
    for _ in 0..max_calls {
        let r = guarded(|| dlt_core::read::read_message(&mut reader, filter));
        match r {
            Err(p) => {
                out.push(Obs::Panicked(p));
                break;
            }
            Ok(Ok(Some(pm))) => out.push(Obs::Msg(pm)),
            Ok(Ok(None)) => {
                out.push(Obs::End);
                if out.iter().filter(|o| matches!(o, Obs::End)).count() >= 2 {
                    break;
                }
            }
            Ok(Err(e)) => out.push(Obs::Err(err_class(&e))),
        }
    }
    drop(reader);
    let log = handle.borrow().log.clone();
    (out, log)
}

fn run_async(bytes: &[u8], wsh: bool, script: Script, filter: Option<&ProcessedDltFilterConfig>, max_calls: usize, stats: &mut PollStats, caps: Caps) -> Result<(Vec<Obs>, crate::iosched::ReadLog), &'static str> {
    let (src, handle) = SharedSource::new(bytes.to_vec(), script);
    let mut reader = match caps {
        Caps::New => DltStreamReader::new(src, wsh),
        Caps::Default => DltStreamReader::with_capacity(65551, 65551, src, wsh),
        Caps::Custom(b, m) => DltStreamReader::with_capacity(b, m, src, wsh),
    };
    let mut out = vec![];
    let max_polls = 40 * (bytes.len() as u64 + 64);
    for _ in 0..max_calls {
        let r = guarded(|| block_on_counted(dlt_core::stream::read_message(&mut reader, filter), max_polls, stats));
        match r {
            Err(p) => {
                out.push(Obs::Panicked(p));
                break;
            }
            Ok(Err(why)) => return Err(why),
            Ok(Ok(Ok(Some(pm)))) => out.push(Obs::Msg(pm)),
            Ok(Ok(Ok(None))) => {
                out.push(Obs::End);
                if out.iter().filter(|o| matches!(o, Obs::End)).count() >= 2 {
                    break;
                }
            }
            Ok(Ok(Err(e))) => out.push(Obs::Err(err_class(&e))),
        }
    }
    drop(reader);
    let log = handle.borrow().log.clone();
    Ok((out, log))
}

fn boundary_classes(ctx: &mut Ctx, log: &crate::iosched::ReadLog, exp: &[Exp], wsh: bool, what: &'static str) {
    // where did fragment boundaries / faults fall relative to the declared pieces?
    let s = if wsh { 16 } else { 0 };
    let pieces: Vec<(usize, usize)> = exp
        .iter()
        .filter_map(|e| if let Exp::Piece(_, a, b) = e { Some((*a, *b)) } else { None })
        .collect();
    let offs = if what == "fault" { &log.fault_offsets } else { &log.boundaries };
    for &b in offs.iter().take(48) {
        if let Some(&(a, _)) = pieces.iter().find(|(a, e)| b > *a && b < *e) {
            let rel = b - a;
            let class = if rel < s {
                "in_storage_header"
            } else if rel < s + 2 {
                "in_htyp_mcnt"
            } else if rel < s + 4 {
                "in_length_field"
            } else {
                "in_body"
            };
            ctx.obs_dyn(format!("{}.{}", what, class));
        } else if pieces.iter().any(|(a, _)| *a == b) {
            ctx.obs_dyn(format!("{}.at_message_boundary", what));
        }
    }
}

impl Monitor for M {
    fn case(&mut self, ctx: &mut Ctx) {
        let light = ctx.light();
        if super::huge::wanted(ctx) {
            // more than 4 GiB through one reader object
            super::huge::over_4gib_through_one_reader(ctx, self.is_async);
        }
        let sc = gen_stream(ctx, light);
        let fsel = ctx.rng.below(6);
        let (fname, filter): (&'static str, Option<&ProcessedDltFilterConfig>) = match fsel {
            0 => ("keep", Some(&self.keep)),
            1 => ("drop", Some(&self.drop)),
            2 => ("level", Some(&self.level)),
            _ => ("none", None),
        };
        // schedule: the family rotates with the case index, its systematic parameter too
        let family = (ctx.index % FAMILIES.len() as u64) as usize;
        let sys = ctx.index / FAMILIES.len() as u64;
        let script = if sc.class == "long_history" {
            // megabytes of stream: large fragments with occasional faults keep the number of reads sane
            let mut steps = vec![];
            for _ in 0..ctx.rng.range(0, 400) {
                if ctx.rng.chance(1, 5) {
                    steps.push(crate::iosched::Step::Fault);
                } else {
                    steps.push(crate::iosched::Step::Give(ctx.rng.range(1, 200_000) as usize));
                }
            }
            Script {
                steps,
                default: *ctx.rng.pick(&[usize::MAX, 65536, 100_000, 8192]),
                family: "long_history_big_fragments",
                max_consecutive: 8,
            }
        } else {
            gen_script(&mut ctx.rng, family, sc.bytes.len(), sys)
        };
        let script_hash = script.hash();
        self.schedules.insert(script_hash);
        let fam = script.family;
        // reader construction: mostly (65551, 65551); `new` (10 MiB) for a fraction and for half of the
        // near-max / long-history streams; where every declared length is known, also tight
        // capacities (message buffer = longest piece + 0..3, read buffer only a little larger, so
        // the stream is many times the capacity) and larger-than-default ones
        let caps = if light {
            Caps::Default
        } else if sc.class == "near_max" || sc.class == "long_history" {
            if ctx.rng.chance(1, 2) {
                Caps::New
            } else {
                Caps::Default
            }
        } else if ctx.index % 64 == 13 {
            Caps::New
        } else if let (Some(mp), true) = (sc.max_piece, ctx.rng.chance(1, 6)) {
            let s = if sc.wsh { 16 } else { 0 };
            let m = mp.max(s + 4) + ctx.rng.usize_below(4);
            if ctx.rng.chance(2, 3) {
                Caps::Custom(m + ctx.rng.usize_below(64), m)
            } else {
                Caps::Custom(65551 + ctx.rng.usize_below(200_000), 65551)
            }
        } else {
            Caps::Default
        };
        let big_buffer = caps == Caps::New;
        let exp = expected(&sc.bytes, sc.wsh, filter);
        if matches!(exp.last(), Some(Exp::RefPanic)) {
            ctx.obs("stream.slice_parser_panicked_in_reference(C03)");
        }
        let max_calls = exp.len() + 2;
        ctx.eval();
        ctx.mark(1);
        let detail_base = |sc: &StreamCase, script: &Script| {
            J::obj()
                .set("stream_hex", hex_trunc(&sc.bytes, 400))
                .set("stream_len", sc.bytes.len())
                .set("with_storage_header", sc.wsh)
                .set("stream_class", sc.class)
                .set("filter", fname)
                .set("schedule_family", script.family)
                .set("schedule_head", format!("{:?}", script.steps.iter().take(12).collect::<Vec<_>>()))
                .set("schedule_default_fragment", if script.default == usize::MAX { -1i64 } else { script.default as i64 })
                .set("reader", format!("{:?}", caps))
        };
        let script_for_detail = script.clone();
        if !self.is_async {
            // ------------------------------------------------------------ C07
            let (obs, log) = run_blocking(&sc.bytes, sc.wsh, script, filter, max_calls, caps);
            ctx.obs_dyn(format!("reader.{}", caps.name()));
            ctx.obs_n("source.max_consecutive_faults_bucket_ge_64", (log.max_consecutive_faults >= 64) as u64);
            ctx.obs_n("source.read_calls", log.calls);
            ctx.obs_n("source.faults_injected", log.faults);
            ctx.obs_n("source.short_reads", log.short_reads);
            ctx.obs_dyn(format!("family.{}", fam));
            ctx.obs_dyn(format!("stream.{}", sc.class));
            if big_buffer {
                ctx.obs("reader.default_10MiB_buffer");
            }
            boundary_classes(ctx, &log, &exp, sc.wsh, "cut");
            boundary_classes(ctx, &log, &exp, sc.wsh, "fault");
            let terminal = obs.last().map(obs_name).unwrap_or_default();
            ctx.shape(
                &(sc.wsh, sc.class, fam, fname, 64 - log.calls.leading_zeros(), 64 - log.faults.leading_zeros(), terminal.split('(').next().map(|s| s.to_string()), sc.n_msgs.min(8)),
                log.short_reads > 0 || log.faults > 0,
            );
            if log.bytes > sc.bytes.len() as u64 {
                ctx.harness_error("source handed out more bytes than the stream holds".into());
            }
            let hist = |obs: &[Obs]| obs.iter().map(obs_name).collect::<Vec<_>>().join(", ");
            let exps = exp.iter().map(exp_name).collect::<Vec<_>>().join(", ");
            let detail = |what: String| detail_base(&sc, &script_for_detail).set("expected_history", crate::json::trunc(&exps, 1200)).set("observed_history", crate::json::trunc(&hist(&obs), 1200)).set("what", what);
            if let Some(Obs::Panicked(p)) = obs.iter().find(|o| matches!(o, Obs::Panicked(_))) {
                let p = p.clone();
                ctx.panic_violation("reader.no_panic", &p, || detail("read_message panicked".into()));
                return;
            }
            let mut ok = true;
            for (i, e) in exp.iter().enumerate() {
                let o = obs.get(i);
                match (e, o) {
                    (Exp::Piece(Ok(pm), ..), Some(Obs::Msg(got))) => {
                        if let Some(d) = same_parsed(got, pm) {
                            ctx.violation("reader.equals_slice_parsing", &format!("message_differs:{}", d), || detail(format!("element {} differs in {}", i, d)));
                            ok = false;
                            break;
                        }
                    }
                    (Exp::Piece(Err(c), ..), Some(Obs::Err(g))) if c == g => {}
                    (Exp::End, Some(Obs::End)) => {
                        if let Some(Obs::Msg(_)) = obs.get(i + 1) {
                            ctx.violation("reader.nothing_after_end", fam, || detail("a message was delivered after end-of-stream".into()));
                            ok = false;
                        }
                        break;
                    }
                    (Exp::TruncatedTail, Some(Obs::End)) | (Exp::TruncatedTail, Some(Obs::Err(_))) => {
                        ctx.obs("truncated_tail.end_or_error");
                        if obs[i + 1..].iter().any(|o| matches!(o, Obs::Msg(_))) {
                            ctx.violation("reader.truncated_tail_never_a_message", fam, || detail("a message was delivered from/after a truncated tail".into()));
                            ok = false;
                        }
                        break;
                    }
                    (Exp::TruncatedTail, Some(Obs::Msg(_))) => {
                        ctx.violation("reader.truncated_tail_never_a_message", fam, || detail(format!("element {} is a message but the stream ends inside it", i)));
                        ok = false;
                        break;
                    }
                    (Exp::ShortLen(_), Some(Obs::Msg(_))) => {
                        ctx.violation("reader.short_declared_length_no_message", fam, || detail(format!("element {}: a message was produced from a length field below the header size", i)));
                        ok = false;
                        break;
                    }
                    (Exp::ShortLen(_), Some(_)) => {
                        ctx.obs("short_declared_length.no_panic_no_message");
                        break;
                    }
                    (Exp::RefPanic, _) => break,
                    (e, o) => {
                        let missing_complete = matches!(e, Exp::Piece(Ok(_), ..));
                        ctx.violation(
                            "reader.equals_slice_parsing",
                            &format!("{}:{}", if missing_complete { "complete_message_not_delivered" } else { "history_differs" }, sc.class),
                            || detail(format!("element {}: expected {}, observed {}", i, exp_name(e), o.map(obs_name).unwrap_or_else(|| "<nothing>".into()))),
                        );
                        ok = false;
                        break;
                    }
                }
            }
            if ok {
                ctx.obs("history.ok");
                ctx.obs_n("history.messages_compared", exp.iter().filter(|e| matches!(e, Exp::Piece(..))).count() as u64);
            }
            // next_message_slice directly: the slices must be the declared pieces
            if ctx.index % 5 == 0 {
                ctx.eval();
                ctx.mark(2);
                let script2 = gen_script(&mut ctx.rng, family, sc.bytes.len(), sys);
                let (src, _h) = SharedSource::new(sc.bytes.clone(), script2);
                let mut reader = DltMessageReader::with_capacity(65551, 65551, src, sc.wsh);
                for e in exp.iter() {
                    let r = guarded(|| reader.next_message_slice().map(|s| s.to_vec()));
                    match (e, r) {
                        (_, Err(p)) => {
                            ctx.panic_violation("reader.no_panic", &p, || detail("next_message_slice panicked".into()));
                            break;
                        }
                        (Exp::Piece(_, a, b), Ok(Ok(s))) => {
                            if s[..] != sc.bytes[*a..*b] {
                                ctx.violation("reader.slice_is_declared_piece", fam, || detail(format!("slice for [{}..{}] is {}", a, b, hex_trunc(&s, 80))));
                                break;
                            }
                            ctx.obs("slice.ok");
                        }
                        (Exp::Piece(_, a, b), Ok(Err(e2))) => {
                            ctx.violation("reader.slice_is_declared_piece", "error", || detail(format!("error {:?} for complete piece [{}..{}]", e2, a, b)));
                            break;
                        }
                        (Exp::End, Ok(Ok(s))) => {
                            if !s.is_empty() {
                                ctx.violation("reader.slice_is_declared_piece", "after_end", || detail("non-empty slice at end of stream".into()));
                            }
                            break;
                        }
                        _ => break,
                    }
                }
            }
            ctx.sample(|| detail_base(&sc, &script_for_detail).set("expected_history", crate::json::trunc(&exps, 300)).set("reads", log.calls).set("faults", log.faults));
        } else {
            // ------------------------------------------------------------ C08
            let (base, _) = run_blocking(&sc.bytes, sc.wsh, Script::whole(), filter, max_calls, Caps::Default);
            let mut stats = PollStats::default();
            let res = run_async(&sc.bytes, sc.wsh, script, filter, max_calls, &mut stats, caps);
            ctx.obs_dyn(format!("reader.{}", caps.name()));
            let (obs, log) = match res {
                Ok(x) => x,
                Err("pending without wake") => {
                    // the scripted source wakes the task before every Pending it returns, so a Pending
                    // that reaches the executor without a wake-up was produced by the reader itself:
                    // under a real executor the task would never be polled again
                    ctx.violation("async.pending_without_wakeup", sc.class, || {
                        detail_base(&sc, &script_for_detail).set("polls", stats.polls).set("what", "read_message returned Poll::Pending although no wake-up had been arranged: the reader would hang where the blocking reader delivers")
                    });
                    return;
                }
                Err(why) => {
                    ctx.inconclusive(format!("poll loop: {}", why));
                    return;
                }
            };
            ctx.obs_n("source.poll_read_calls", log.calls);
            ctx.obs_n("source.pendings_injected", log.faults);
            ctx.obs_n("executor.polls", stats.polls);
            ctx.obs_n("executor.pendings_seen", stats.pendings);
            ctx.obs_dyn(format!("family.{}", fam));
            ctx.obs_dyn(format!("stream.{}", sc.class));
            boundary_classes(ctx, &log, &exp, sc.wsh, "cut");
            boundary_classes(ctx, &log, &exp, sc.wsh, "pending");
            let terminal = obs.last().map(obs_name).unwrap_or_default();
            ctx.shape(
                &(sc.wsh, sc.class, fam, fname, 64 - stats.polls.leading_zeros(), 64 - log.faults.leading_zeros(), terminal.split('(').next().map(|s| s.to_string()), sc.n_msgs.min(8)),
                log.short_reads > 0 || log.faults > 0,
            );
            let hist = |obs: &[Obs]| obs.iter().map(obs_name).collect::<Vec<_>>().join(", ");
            let detail = |what: String| detail_base(&sc, &script_for_detail).set("blocking_history", crate::json::trunc(&hist(&base), 1200)).set("async_history", crate::json::trunc(&hist(&obs), 1200)).set("polls", stats.polls).set("pendings", stats.pendings).set("what", what);
            if let Some(Obs::Panicked(p)) = obs.iter().find(|o| matches!(o, Obs::Panicked(_))) {
                let p = p.clone();
                ctx.panic_violation("async_reader.no_panic", &p, || detail("stream::read_message panicked".into()));
                return;
            }
            if base.iter().any(|o| matches!(o, Obs::Panicked(_))) {
                // the blocking reader's crash is C07's finding; nothing to compare against
                ctx.obs("baseline.blocking_reader_panicked(C07)");
                return;
            }
            let mut ok = true;
            for i in 0..base.len().max(obs.len()) {
                match (base.get(i), obs.get(i)) {
                    (Some(Obs::Msg(a)), Some(Obs::Msg(b))) => {
                        if let Some(d) = same_parsed(b, a) {
                            ctx.violation("async.same_messages", &format!("message_differs:{}", d), || detail(format!("element {} differs in {}", i, d)));
                            ok = false;
                            break;
                        }
                    }
                    (Some(Obs::End), Some(Obs::End)) => {}
                    (Some(Obs::Err(a)), Some(Obs::Err(b))) if a == b => {}
                    (a, b) => {
                        ctx.violation("async.same_history", sc.class, || {
                            detail(format!("element {}: blocking {}, async {}", i, a.map(obs_name).unwrap_or_else(|| "<nothing>".into()), b.map(obs_name).unwrap_or_else(|| "<nothing>".into())))
                        });
                        ok = false;
                        break;
                    }
                }
            }
            if ok {
                ctx.obs("history.ok");
                ctx.obs_n("history.messages_compared", base.iter().filter(|o| matches!(o, Obs::Msg(_))).count() as u64);
                match base.iter().find(|o| !matches!(o, Obs::Msg(_))) {
                    Some(Obs::End) => ctx.obs("terminal.end_of_stream"),
                    Some(Obs::Err(_)) => ctx.obs("terminal.error"),
                    _ => {}
                }
            }
            // next_message_slice of the async reader against the blocking one
            if ctx.index % 5 == 0 {
                ctx.eval();
                ctx.mark(2);
                let script2 = gen_script(&mut ctx.rng, family, sc.bytes.len(), sys);
                let (src, _h) = SharedSource::new(sc.bytes.clone(), script2);
                let mut ar = DltStreamReader::with_capacity(65551, 65551, src, sc.wsh);
                let (src2, _h2) = SharedSource::new(sc.bytes.clone(), Script::whole());
                let mut br = DltMessageReader::with_capacity(65551, 65551, src2, sc.wsh);
                let mut st = PollStats::default();
                for _ in 0..max_calls {
                    let a = guarded(|| block_on_counted(ar.next_message_slice(), 40 * (sc.bytes.len() as u64 + 64), &mut st).map(|r| r.map(|s| s.to_vec())));
                    let b = guarded(|| br.next_message_slice().map(|s| s.to_vec()));
                    match (a, b) {
                        (Err(p), _) => {
                            ctx.panic_violation("async_reader.no_panic", &p, || detail("next_message_slice panicked".into()));
                            break;
                        }
                        (_, Err(_)) => break,
                        (Ok(Err(why)), _) => {
                            ctx.inconclusive(format!("poll loop: {}", why));
                            break;
                        }
                        (Ok(Ok(Ok(x))), Ok(Ok(y))) => {
                            if x != y {
                                ctx.violation("async.same_slices", fam, || detail(format!("async slice {} vs blocking {}", hex_trunc(&x, 60), hex_trunc(&y, 60))));
                                break;
                            }
                            ctx.obs("slice.ok");
                            if x.is_empty() {
                                break;
                            }
                        }
                        (Ok(Ok(Err(e1))), Ok(Err(e2))) => {
                            if err_class(&e1) != err_class(&e2) {
                                ctx.violation("async.same_slices", "error_class", || detail(format!("async {:?} vs blocking {:?}", e1, e2)));
                            }
                            break;
                        }
                        (Ok(Ok(x)), Ok(y)) => {
                            ctx.violation("async.same_slices", "outcome", || detail(format!("async {:?} vs blocking {:?}", x.map(|v| v.len()), y.map(|v| v.len()))));
                            break;
                        }
                    }
                }
            }
            ctx.sample(|| detail_base(&sc, &script_for_detail).set("blocking_history", crate::json::trunc(&hist(&base), 300)).set("polls", stats.polls).set("pendings", stats.pendings));
        }
    }

    fn finish(&mut self, ctx: &mut Ctx) {
        ctx.obs_n("schedules.distinct_in_shard", self.schedules.len() as u64);
    }

    fn describe(&self, ctx: &Ctx) -> J {
        if !self.is_async {
            super::describe(
                "byte streams: 0-30 reference-encoded messages of all kinds (35 %), the same truncated at every offset of the last two messages (15 %, offset walks with the case index), payload-damaged messages with intact framing (5 %), hostile length fields LEN in {0,1,2,3}, below the header size, beyond the stream, 65535 (20 %), arbitrary bytes (25 %); x storage mode x filter (none 50 %, keep, drop, level); x schedule family rotating with the case index: whole, one byte at a time, every single cut position, single cut with 1-3 Interrupted errors at the cut (and before the first byte), pairs of cut positions, fixed fragment sizes 2..17, geometric random fragments, an Interrupted error before every read, random mix of faults and fragments, bursts of consecutive faults. The history of read_message results is compared element by element with an independently written reference framing; every 5th case also checks next_message_slice against the declared pieces. 1 in 50 streams contains a message with one of the 16 largest declarable lengths; 1 in 3001 is a long history (150-1400 messages, 4-45 MiB) through one reader; schedule family fault_burst injects runs of 9..400 consecutive Interrupted errors at one offset. Readers: with_capacity(65551,65551) mostly, DltMessageReader::new (10 MiB) for 1 in 64 and half of the near-max / long streams, larger capacities, and tight capacities (message buffer = longest declared piece + 0..3, read buffer a few bytes more) for streams whose declared lengths are all known. distinct = (storage mode, stream class, schedule family, filter, read-count bucket, fault-count bucket, terminal outcome, message-count bucket); non-trivial = at least one read was short or interrupted",
                &["error results are compared by class (DltParseError variant) only", "for a declared length below 4 the framing is undefined: only 'no panic, no message' is demanded for that call and comparison stops", "reader capacities always hold the longest declared piece of the stream they are used with (tight capacities only where every declared length is known), so the crate's debug_assert on capacity cannot be what fires"],
                &[("history.ok", super::scaled(ctx, 50000)), ("history.messages_compared", super::scaled(ctx, 100000)), ("source.faults_injected", super::scaled(ctx, 100000)), ("cut.in_length_field", 1000), ("cut.in_storage_header", 1000), ("cut.in_body", 10000), ("fault.in_length_field", 200), ("truncated_tail.end_or_error", super::scaled(ctx, 2000)), ("short_declared_length.no_panic_no_message", super::scaled(ctx, 1000)), ("slice.ok", super::scaled(ctx, 10000))],
            )
        } else {
            super::describe(
                "the C07 stream classes (well-formed, truncated at every offset of the last two messages, payload-damaged, hostile lengths, arbitrary) x storage mode x filter, read once by the blocking reader from an always-complete source and once by the async reader under a schedule of Poll::Pending / Ready(k): whole, one byte per poll, every single cut, single cut with 1-3 Pending at the cut and before the first byte, pairs of cuts, fixed fragments 2..17, geometric fragments, Pending before every poll, random mix, bursts of 9..400 consecutive Pending; the same near-max / long-history (4-45 MiB through one reader) streams and reader capacities as C07; driven by a counting poll loop: the scripted source wakes the task before every Pending it returns, so a Pending that reaches the executor without a wake-up comes from the reader and is a violation (the reader would hang under a real executor); exceeding the poll bound is inconclusive. Histories (messages bit-exact, errors by class, end of stream) are compared element by element; every 5th case also compares next_message_slice. distinct = (storage mode, stream class, schedule family, filter, poll-count bucket, pending-count bucket, terminal outcome, message-count bucket); non-trivial = at least one short or pending poll",
                &["the blocking reader on an always-complete source is the baseline, as the property states; where it errs the async reader must err with the same class", "at most 8 consecutive Pending results outside the fault_burst family (there up to 400), so a correct reader always makes progress"],
                &[("history.ok", super::scaled(ctx, 50000)), ("history.messages_compared", super::scaled(ctx, 100000)), ("source.pendings_injected", super::scaled(ctx, 100000)), ("pending.in_length_field", 200), ("pending.in_body", 2000), ("cut.in_storage_header", 1000), ("terminal.end_of_stream", super::scaled(ctx, 10000)), ("terminal.error", super::scaled(ctx, 5000)), ("slice.ok", super::scaled(ctx, 10000))],
            )
        }
    }
}
