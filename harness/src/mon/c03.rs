//! C03 — no byte sequence can crash the slice parsers or the use of what they return.
//!
//! Oracles: panic capture (checked build: arithmetic overflow panics), sanitizers in the other
//! engines, string-validity monitor (every String/&str returned is re-validated), slice
//! provenance (every returned remainder lies inside the input), Argument::valid() on every
//! returned argument, and re-serialisation / measuring of every returned message.

use crate::ctx::{guarded, Ctx, Monitor};
use crate::gen_msg::ALL_KINDS;
use crate::inputs::gen_input;
use crate::json::{hex_trunc, J};
use crate::refcodec::kind_name;
use dlt_core::dlt::*;
use dlt_core::filtering::{DltFilterConfig, ProcessedDltFilterConfig};
use dlt_core::parse::*;

pub struct M {
    keep: ProcessedDltFilterConfig,
    drop: ProcessedDltFilterConfig,
}

impl Default for M {
    fn default() -> Self {
        M {
            keep: DltFilterConfig {
                min_log_level: Some(6),
                app_ids: None,
                ecu_ids: None,
                context_ids: None,
                app_id_count: 0,
                context_id_count: 0,
            }
            .into(),
            drop: DltFilterConfig {
                min_log_level: Some(1),
                app_ids: Some(vec!["\u{1}no".into()]),
                ecu_ids: None,
                context_ids: Some(vec![]),
                app_id_count: 5,
                context_id_count: 5,
            }
            .into(),
        }
    }
}

fn strings_valid(m: &Message) -> Option<&'static str> {
    let ok = |s: &str| std::str::from_utf8(s.as_bytes()).is_ok();
    if let Some(s) = &m.storage_header {
        if !ok(&s.ecu_id) {
            return Some("storage.ecu_id");
        }
    }
    if let Some(e) = &m.header.ecu_id {
        if !ok(e) {
            return Some("header.ecu_id");
        }
    }
    if let Some(x) = &m.extended_header {
        if !ok(&x.application_id) {
            return Some("ext.application_id");
        }
        if !ok(&x.context_id) {
            return Some("ext.context_id");
        }
    }
    if let PayloadContent::Verbose(args) = &m.payload {
        for a in args {
            if let Some(n) = &a.name {
                if !ok(n) {
                    return Some("arg.name");
                }
            }
            if let Some(n) = &a.unit {
                if !ok(n) {
                    return Some("arg.unit");
                }
            }
            if let Value::StringVal(s) = &a.value {
                if !ok(s) {
                    return Some("arg.value");
                }
            }
        }
    }
    None
}

/// everything C03 promises about a message the parser returned
pub fn use_message(ctx: &mut Ctx, m: &Message, input: &[u8], tag: &'static str) {
    let detail = |what: String| J::obj().set("input_hex", hex_trunc(input, 240)).set("input_len", input.len()).set("entry", tag).set("what", what);
    if let Some(f) = strings_valid(m) {
        ctx.violation("use.strings_are_valid_utf8", f, || detail(format!("invalid UTF-8 in {}", f)));
    }
    match guarded(|| (m.as_bytes().len(), m.byte_len())) {
        Err(p) => ctx.panic_violation("use.reserialise_no_panic", &p, || detail("Message::as_bytes / byte_len".into())),
        Ok(_) => ctx.obs("use.reserialised"),
    }
    if let PayloadContent::Verbose(args) = &m.payload {
        for a in args {
            let k = kind_name(&a.type_info.kind);
            match guarded(|| {
                let l = a.len();
                let b = a.as_bytes::<byteorder::BigEndian>().len();
                let c = a.as_bytes::<byteorder::LittleEndian>().len();
                (l, b, c, a.valid())
            }) {
                Err(p) => ctx.panic_violation("use.argument_no_panic", &p, || detail(format!("Argument::len/as_bytes/valid on a {} argument", k))),
                Ok((_, _, _, valid)) => {
                    if !valid {
                        ctx.violation("use.argument_valid", k, || detail(format!("valid() == false for {:?}", a)));
                    } else {
                        ctx.obs("use.argument_ok");
                    }
                }
            }
        }
    }
}

fn parse_modes(ctx: &mut Ctx, mon: &M, b: &[u8], wsh: bool, class: &'static str, ops: &[&'static str]) {
    // a random configuration per case: empty / duplicate / over-long ids, counts at the i64 extremes
    let (rand_filter, rand_cfg) = crate::filtergen::gen_processed(&mut ctx.rng);
    let modes: [(bool, u8, &'static str); 5] = [
        (wsh, 0, "dlt_message"),
        (wsh, 1, "dlt_message+keep_filter"),
        (wsh, 2, "dlt_message+drop_filter"),
        (!wsh, 0, "dlt_message(other storage mode)"),
        (wsh, 3, "dlt_message+random_filter"),
    ];
    for (mi, (mode_wsh, filt, tag)) in modes.iter().enumerate() {
        ctx.eval();
        ctx.mark(1 + mi as u32);
        let f = match filt {
            1 => Some(&mon.keep),
            2 => Some(&mon.drop),
            3 => Some(&rand_filter),
            _ => None,
        };
        let res = guarded(|| dlt_message(b, f, *mode_wsh).map(|(rest, pm)| (super::ptr_off(b, rest), pm)));
        let detail = |got: String| {
            J::obj()
                .set("input_hex", hex_trunc(b, 240))
                .set("input_len", b.len())
                .set("with_storage_header", *mode_wsh)
                .set("filter", *filt)
                .set("random_filter_config", if *filt == 3 { rand_cfg.clone() } else { String::new() })
                .set("class", class)
                .set("operators", ops.join("+"))
                .set("got", got)
        };
        let outcome = match &res {
            Err(_) => "panic",
            Ok(Ok((_, ParsedMessage::Item(_)))) => "item",
            Ok(Ok((_, ParsedMessage::FilteredOut(_)))) => "filtered",
            Ok(Ok((_, ParsedMessage::Invalid))) => "invalid",
            Ok(Err(DltParseError::IncompleteParse { .. })) => "incomplete",
            Ok(Err(_)) => "error",
        };
        let op0 = ops.first().copied().unwrap_or("-");
        ctx.shape(&(*tag, class, op0, ops.len(), outcome, b.len() > 65536), outcome != "incomplete" || b.len() > 20);
        ctx.obs_dyn(format!("outcome.{}.{}", if *filt == 0 { "nofilter" } else if *filt == 1 { "keep" } else if *filt == 2 { "drop" } else { "random" }, outcome));
        match res {
            Err(p) => ctx.panic_violation("parse.no_panic", &p, || detail("panic".into())),
            Ok(Ok((off, pm))) => {
                if off.is_none() {
                    ctx.violation("parse.remainder_inside_input", tag, || detail("remainder does not lie inside the input buffer".into()));
                }
                if let ParsedMessage::Item(m) = &pm {
                    use_message(ctx, m, b, tag);
                }
            }
            Ok(Err(_)) => {}
        }
    }
    // the other slice-level entry points on the same bytes
    ctx.eval();
    ctx.mark(6);
    match guarded(|| dlt_consume_msg(b).map(|(r, c)| (super::ptr_off(b, r), c))) {
        Err(p) => ctx.panic_violation("consume.no_panic", &p, || J::obj().set("input_hex", hex_trunc(b, 240)).set("input_len", b.len())),
        Ok(Ok((None, _))) => ctx.violation("consume.remainder_inside_input", "dlt_consume_msg", || J::obj().set("input_hex", hex_trunc(b, 240))),
        Ok(_) => ctx.obs("consume.returned"),
    }
    ctx.eval();
    ctx.mark(7);
    match guarded(|| skip_storage_header(b).map(|(r, c)| (super::ptr_off(b, r), c))) {
        Err(p) => ctx.panic_violation("skip_storage_header.no_panic", &p, || J::obj().set("input_hex", hex_trunc(b, 240))),
        Ok(Ok((None, _))) => ctx.violation("skip_storage_header.remainder_inside_input", "skip", || J::obj().set("input_hex", hex_trunc(b, 240))),
        Ok(_) => ctx.obs("skip_storage_header.returned"),
    }
    ctx.eval();
    ctx.mark(8);
    match guarded(|| forward_to_next_storage_header(b).map(|(k, r)| (k, super::ptr_off(b, r)))) {
        Err(p) => ctx.panic_violation("forward.no_panic", &p, || J::obj().set("input_hex", hex_trunc(b, 240))),
        Ok(Some((_, None))) => ctx.violation("forward.remainder_inside_input", "forward", || J::obj().set("input_hex", hex_trunc(b, 240))),
        Ok(_) => ctx.obs("forward.returned"),
    }
}

/// one filter object, kept for a long trace: more than 4 GiB of payload go through the SAME
/// ProcessedDltFilterConfig (70 000 maximum-size messages, all dropped). Whatever a filter object
/// accumulates over its life time must not make a later call crash.
fn long_lived_filter(ctx: &mut Ctx) {
    let mut o = crate::gen_msg::GenOpts::near_max(&mut ctx.rng);
    o.force_kind = Some(crate::gen_msg::PKind::Verbose);
    let m = crate::gen_msg::gen_msg(&mut ctx.rng, &o);
    let wsh = m.storage_header.is_some();
    let b: Box<[u8]> = crate::refcodec::ref_encode(&m).bytes.into_boxed_slice();
    let cfg = DltFilterConfig {
        min_log_level: None,
        app_ids: Some(vec!["\u{1}no".into()]),
        ecu_ids: None,
        context_ids: None,
        app_id_count: 0,
        context_id_count: 0,
    };
    let f: ProcessedDltFilterConfig = cfg.into();
    let n = 70_000u32;
    ctx.eval();
    let res = guarded(|| {
        let mut dropped = 0u32;
        for _ in 0..n {
            if let Ok((_, ParsedMessage::FilteredOut(_))) = dlt_message(&b, Some(&f), wsh) {
                dropped += 1;
            }
        }
        dropped
    });
    match res {
        Err(p) => ctx.panic_violation("parse.no_panic", &p, || J::obj().set("history", format!("one filter object used for {} filtered messages of {} bytes", n, b.len())).set("input_len", b.len())),
        Ok(d) => {
            ctx.obs("history.long_lived_filter_object");
            ctx.obs_n("history.long_lived_filter_object.dropped", d as u64);
        }
    }
}

impl Monitor for M {
    fn case(&mut self, ctx: &mut Ctx) {
        let light = ctx.light();
        if !light && ctx.index % 25_000 == 7 {
            long_lived_filter(ctx);
        }
        match ctx.index % 10 {
            0 => {
                // construct_arguments: random type lists (incl. fixed-point kinds) over random/short payloads
                ctx.obs("cases.construct_arguments");
                let n = ctx.rng.size(4, 30);
                let ts: Vec<TypeInfo> = (0..n)
                    .map(|_| TypeInfo {
                        kind: ctx.rng.pick(&ALL_KINDS).clone(),
                        coding: crate::gen_msg::gen_coding(&mut ctx.rng),
                        has_variable_info: ctx.rng.chance(1, 3),
                        has_trace_info: false,
                    })
                    .collect();
                for v in 0..4 {
                    let len = match v {
                        0 => 0,
                        1 => ctx.rng.usize_below(8),
                        _ => ctx.rng.size(20, if light { 60 } else { 70_000 }),
                    };
                    let mut d = ctx.rng.bytes(len);
                    if v == 3 && d.len() >= 2 {
                        d[0] = 0xFF;
                        d[1] = 0xFF;
                    }
                    let d: Box<[u8]> = d.into_boxed_slice();
                    for be in [Endianness::Big, Endianness::Little] {
                        ctx.eval();
                        ctx.mark(v as u32);
                        let r = guarded(|| construct_arguments(be, &ts, &d));
                        let outcome = match &r {
                            Err(_) => "panic",
                            Ok(Ok(_)) => "ok",
                            Ok(Err(_)) => "err",
                        };
                        ctx.shape(&("construct", ts.iter().take(3).map(|t| kind_name(&t.kind)).collect::<Vec<_>>(), v, outcome), !ts.is_empty());
                        match r {
                            Err(p) => ctx.panic_violation("construct_arguments.no_panic", &p, || {
                                J::obj()
                                    .set("types", ts.iter().map(|t| kind_name(&t.kind)).collect::<Vec<_>>().join(","))
                                    .set("payload_hex", hex_trunc(&d, 120))
                                    .set("payload_len", d.len())
                                    .set("endianness", format!("{:?}", be))
                            }),
                            Ok(Ok(args)) => {
                                ctx.obs("construct_arguments.ok");
                                for a in &args {
                                    if let Value::StringVal(s) = &a.value {
                                        if std::str::from_utf8(s.as_bytes()).is_err() {
                                            ctx.violation("use.strings_are_valid_utf8", "construct_arguments", || J::obj().set("payload_hex", hex_trunc(&d, 120)));
                                        }
                                    }
                                    if guarded(|| (a.len(), a.valid())).is_err() {
                                        ctx.violation("use.argument_no_panic", "construct_arguments", || J::obj().set("argument", format!("{:?}", a)));
                                    }
                                }
                            }
                            Ok(Err(_)) => ctx.obs("construct_arguments.err"),
                        }
                    }
                }
            }
            1 => {
                // fixed-size string extraction: any size against short and long buffers
                ctx.obs("cases.zero_terminated_string");
                for _ in 0..if light { 3 } else { 24 } {
                    let len = ctx.rng.size(10, if light { 100 } else { 70_000 });
                    let mut s = ctx.rng.bytes(len);
                    if ctx.rng.chance(1, 2) {
                        for x in s.iter_mut() {
                            if *x == 0 {
                                *x = 0xC3;
                            }
                        }
                    }
                    let size = match ctx.rng.below(4) {
                        0 => ctx.rng.usize_below(65536),
                        1 => len,
                        2 => len + 1,
                        _ => ctx.rng.usize_below(len + 2),
                    };
                    ctx.eval();
                    let r = guarded(|| dlt_zero_terminated_string(&s, size).map(|(rest, t)| (super::ptr_off(&s, rest), std::str::from_utf8(t.as_bytes()).is_ok())));
                    ctx.shape(&("zts", len.min(40), size.min(40), len < size, matches!(r, Ok(Ok(_)))), true);
                    match r {
                        Err(p) => ctx.panic_violation("zero_terminated_string.no_panic", &p, || J::obj().set("input_hex", hex_trunc(&s, 120)).set("input_len", s.len()).set("size", size)),
                        Ok(Ok((off, valid))) => {
                            if off.is_none() {
                                ctx.violation("zero_terminated_string.remainder_inside_input", "zts", || J::obj().set("input_hex", hex_trunc(&s, 120)).set("size", size));
                            }
                            if !valid {
                                ctx.violation("use.strings_are_valid_utf8", "zero_terminated_string", || J::obj().set("input_hex", hex_trunc(&s, 120)).set("size", size));
                            }
                            ctx.obs("zero_terminated_string.ok");
                        }
                        Ok(Err(_)) => ctx.obs("zero_terminated_string.err"),
                    }
                }
            }
            _ => {
                let class = match ctx.index % 10 {
                    2 => Some(4), // long-field attacks get a fixed share
                    _ => None,
                };
                let inp = gen_input(&mut ctx.rng, class, light, None);
                ctx.obs_dyn(format!("cases.input.{}", inp.class));
                if inp.bytes.len() > 65536 {
                    ctx.obs("cases.input_larger_than_64KiB");
                }
                // an allocation of exactly the input's size: a read past the end of the input is a read past
                // the end of the allocation, which is what the red-zone sanitizers can see
                let exact: Box<[u8]> = inp.bytes.clone().into_boxed_slice();
                parse_modes(ctx, self, &exact, inp.wsh, inp.class, &inp.ops);
                let b = &inp.bytes;
                ctx.sample(|| J::obj().set("class", inp.class).set("operators", inp.ops.join("+")).set("input_hex", hex_trunc(b, 96)).set("input_len", b.len()));
            }
        }
    }

    fn describe(&self, ctx: &Ctx) -> J {
        super::describe(
            "80 % message inputs (classes canonical / dialect / structure-aware mutants / truncations / 0xFFFF length-prefix attacks followed by >64 KiB of readable bytes (fixed 10 % share) / arbitrary / header-shaped), each through dlt_message in 5 mode combinations (native storage mode x {no filter, keeping filter, dropping filter, a random filter configuration per case incl. empty / duplicate / over-long ids and counts at the i64 extremes}, other storage mode), dlt_consume_msg, skip_storage_header, forward_to_next_storage_header; every returned message is re-serialised, measured, and every argument passed through len/as_bytes<BE|LE>/valid; 10 % construct_arguments with random type lists (incl. fixed-point kinds) over empty/short/long/0xFFFF-prefixed payloads in both byte orders; 10 % dlt_zero_terminated_string with sizes 0..65535 against short and long buffers. Once per 25 000 cases one filter object is used for 70 000 maximum-size messages (> 4 GiB of filtered payload through one ProcessedDltFilterConfig). A fraction of the workers runs with a log::Log installed that formats every record, so the crate's trace!/warn! argument expressions are evaluated. distinct = (entry point + mode, input class, first operator, operator count, outcome class, >64 KiB); non-trivial = the call got past the first header bytes",
            &["only panics raised inside the bracketed crate calls count; a panic located in harness code is a harness error (inconclusive)"],
            &[("use.reserialised", super::scaled(ctx, 50000)), ("use.argument_ok", super::scaled(ctx, 50000)), ("outcome.nofilter.error", super::scaled(ctx, 10000)), ("outcome.drop.filtered", super::scaled(ctx, 10000)), ("cases.input_larger_than_64KiB", super::scaled(ctx, 1000)), ("construct_arguments.ok", 1000), ("construct_arguments.err", 1000)],
        )
    }
}
