//! C17 — timestamps built from milliseconds / microseconds denote the same instant.
//!
//! Oracle (u128 arithmetic): seconds*10^6 + microseconds == input in microseconds,
//! microseconds < 10^6, no panic. A case is a chunk of inputs:
//!   chunks 0..EXH            : exhaustive 0 .. EXH*CHUNK for both constructors
//!   next 2*33 chunks         : +-2000 around 2^k * unit, k = 0..32, per constructor
//!   next 2*64 chunks         : +-1500 around the raw powers of two 2^k, per constructor
//!   next 2 chunks            : the largest admissible inputs and their neighbours
//!   afterwards               : CHUNK random admissible inputs per case

use crate::ctx::{guarded, Ctx, Monitor};
use crate::json::J;
use dlt_core::dlt::DltTimeStamp;

const CHUNK: u64 = 1000;
const EXH: u64 = 2000; // exhaustive 0..2_000_000

#[derive(Default)]
pub struct M {}

fn check(ctx: &mut Ctx, ms: bool, x: u64) {
    let unit: u64 = if ms { 1000 } else { 1_000_000 };
    debug_assert!((x / unit) < (1u64 << 32));
    ctx.eval();
    let res = guarded(|| if ms { DltTimeStamp::from_ms(x) } else { DltTimeStamp::from_us(x) });
    let which = if ms { "from_ms" } else { "from_us" };
    // shape: constructor, magnitude bucket, sub-second class
    let sub = x % unit;
    let sub_class = if sub == 0 {
        0
    } else if sub == unit - 1 {
        1
    } else if sub < 5 {
        2
    } else {
        3
    };
    ctx.shape(&(ms, 64 - x.leading_zeros(), sub_class), x > 0);
    match res {
        Err(p) => ctx.panic_violation("no_panic", &p, || {
            J::obj().set("fn", which).set("input", x)
        }),
        Ok(t) => {
            let want: u128 = if ms { x as u128 * 1000 } else { x as u128 };
            let got: u128 = t.seconds as u128 * 1_000_000 + t.microseconds as u128;
            if t.microseconds >= 1_000_000 {
                ctx.violation("micros_below_1e6", which, || {
                    J::obj()
                        .set("fn", which)
                        .set("input", x)
                        .set("seconds", t.seconds)
                        .set("microseconds", t.microseconds)
                });
            } else if got != want {
                ctx.violation("same_instant", which, || {
                    J::obj()
                        .set("fn", which)
                        .set("input", x)
                        .set("seconds", t.seconds)
                        .set("microseconds", t.microseconds)
                        .set("expected_total_us", want as i128)
                });
            } else {
                ctx.obs(if ms { "ok.from_ms" } else { "ok.from_us" });
            }
            if ctx.index % 97 == 0 && x % CHUNK == 3 {
                ctx.sample(|| {
                    J::obj()
                        .set("fn", which)
                        .set("input", x)
                        .set("seconds", t.seconds)
                        .set("microseconds", t.microseconds)
                });
            }
        }
    }
}

impl Monitor for M {
    fn case(&mut self, ctx: &mut Ctx) {
        let light = ctx.light();
        // the interpreter and valgrind skip the exhaustive sweep of 0..2*10^6 (plain arithmetic, no memory
        // in play) and start at the boundary families
        let i = if light { ctx.index + EXH } else { ctx.index };
        let chunk = if light { 20 } else { CHUNK };
        if i < EXH {
            ctx.obs("chunks.exhaustive");
            let n = if light { 20 } else { CHUNK };
            for x in i * CHUNK..i * CHUNK + n {
                check(ctx, true, x);
                check(ctx, false, x);
            }
            return;
        }
        let i = i - EXH;
        if i < 66 {
            ctx.obs("chunks.power_of_two_boundaries");
            let ms = i % 2 == 0;
            let k = (i / 2) as u32;
            let unit: u128 = if ms { 1000 } else { 1_000_000 };
            let base = (1u128 << k) * unit;
            let span: i128 = if light { 30 } else { 2000 };
            for d in -span..=span {
                let x = base as i128 + d;
                if x >= 0 && (x as u128) / unit < (1u128 << 32) {
                    check(ctx, ms, x as u64);
                }
            }
            return;
        }
        let i = i - 66;
        if i < 128 {
            // +-span around the raw powers of two 2^k (not multiplied by the unit): width-related
            // slips (a 32-bit fast path, a narrowing cast) live here
            ctx.obs("chunks.raw_power_of_two");
            let ms = i % 2 == 0;
            let k = (i / 2) as u32;
            let unit: u128 = if ms { 1000 } else { 1_000_000 };
            let span: i128 = if light { 20 } else { 1500 };
            for d in -span..=span {
                let x = (1i128 << k) + d;
                if x >= 0 && (x as u128) / unit < (1u128 << 32) {
                    check(ctx, ms, x as u64);
                }
            }
            return;
        }
        let i = i - 128;
        if i < 2 {
            ctx.obs("chunks.max_admissible");
            let ms = i == 0;
            let unit: u64 = if ms { 1000 } else { 1_000_000 };
            let max = (1u64 << 32) * unit - 1;
            let span = if light { 30 } else { 3000 };
            for d in 0..span {
                check(ctx, ms, max - d);
            }
            // every whole-second boundary near the top
            for s in 0..span {
                check(ctx, ms, ((1u64 << 32) - 1 - s) * unit);
            }
            return;
        }
        ctx.obs("chunks.random");
        for _ in 0..chunk {
            let ms = ctx.rng.chance(1, 2);
            let unit: u64 = if ms { 1000 } else { 1_000_000 };
            let x = match ctx.rng.below(4) {
                0 => ctx.rng.below(1 << 32).wrapping_mul(unit) + ctx.rng.below(3), // just above a second boundary
                1 => (ctx.rng.below((1 << 32) - 1) + 1) * unit - 1 - ctx.rng.below(3), // just below
                _ => ctx.rng.next() % ((1u64 << 32) * unit),
            };
            if x / unit < (1u64 << 32) {
                check(ctx, ms, x);
            }
            // history on the same thread: the other constructor right afterwards with a
            // numerically close raw count (state carried between calls must not leak across units)
            if ctx.rng.chance(1, 4) {
                let d = ctx.rng.below(1000);
                let y = match ctx.rng.below(3) {
                    0 => x.wrapping_add(d),
                    1 => x.wrapping_sub(d),
                    _ => (x / 1000) * 1000 + d,
                };
                let unit2: u64 = if ms { 1_000_000 } else { 1000 };
                if y / unit2 < (1u64 << 32) {
                    ctx.obs("history.other_unit_close_value");
                    check(ctx, !ms, y);
                    // and back again
                    if x / unit < (1u64 << 32) {
                        check(ctx, ms, x);
                    }
                }
            }
        }
    }

    fn describe(&self, ctx: &Ctx) -> J {
        super::describe(
            "inputs: every value 0..2*10^6 for both constructors (chunks 0..1999), +-2000 around 2^k*unit for k=0..32, +-1500 around every raw power of two 2^k (k=0..63, admissible part), the 3000 largest admissible inputs and top whole-second boundaries, then random admissible u64 (biased to second boundaries); every 4th random input is followed on the same thread by the other constructor with a numerically close raw count and then by the first again (call histories). distinct = (constructor, bit length of the input, sub-second class); non-trivial = input > 0",
            &["admissible inputs are those with input / units-per-second < 2^32, as the property states"],
            &[("ok.from_ms", super::scaled(ctx, 1000)), ("ok.from_us", super::scaled(ctx, 1000))],
        )
        .set("fixed_chunks", EXH + 68 + 128)
    }
}
