//! C18 — fixed-point arguments convert to quantization x value + offset without panicking.
//!
//! Oracle: to_real_value() never panics; Some(_) only for (fixed-point kind, fixed-point data
//! present, integer value of 8..64 bits); with p = trunc(v as f64 * q as f64): if p >= 0 and
//! 0 <= p + offset < 2^63 (exact, i128) the result must be Some(p + offset). Outside that
//! range only totality is demanded.

use crate::ctx::{guarded, Ctx, Monitor};
use crate::gen_msg::ALL_KINDS;
use crate::json::J;
use crate::refcodec::kind_name;
use dlt_core::dlt::*;

#[derive(Default)]
pub struct M {}

const BATCH: usize = 256;

fn gen_any_value(ctx: &mut Ctx) -> (Value, &'static str) {
    let a = ctx.rng.special64();
    match ctx.rng.below(15) {
        0 => (Value::Bool(a as u8), "Bool"),
        1 => (Value::U8(a as u8), "U8"),
        2 => (Value::U16(a as u16), "U16"),
        3 => (Value::U32(a as u32), "U32"),
        4 => (Value::U64(a), "U64"),
        5 => (Value::U128((a as u128) << 64 | ctx.rng.next() as u128), "U128"),
        6 => (Value::I8(a as i8), "I8"),
        7 => (Value::I16(a as i16), "I16"),
        8 => (Value::I32(a as i32), "I32"),
        9 => (Value::I64(a as i64), "I64"),
        10 => (Value::I128(((a as u128) << 64 | ctx.rng.next() as u128) as i128), "I128"),
        11 => (Value::F32(f32::from_bits(a as u32)), "F32"),
        12 => (Value::F64(f64::from_bits(a)), "F64"),
        13 => (Value::StringVal("x".into()), "String"),
        _ => (Value::Raw(vec![1, 2]), "Raw"),
    }
}

fn int_as_f64(v: &Value) -> Option<f64> {
    Some(match v {
        Value::I8(x) => *x as f64,
        Value::I16(x) => *x as f64,
        Value::I32(x) => *x as f64,
        Value::I64(x) => *x as f64,
        Value::U8(x) => *x as f64,
        Value::U16(x) => *x as f64,
        Value::U32(x) => *x as f64,
        Value::U64(x) => *x as f64,
        _ => return None,
    })
}

fn gen_q(ctx: &mut Ctx) -> (f32, &'static str) {
    match ctx.rng.below(16) {
        0 => (0.0, "0"),
        1 => (-0.0, "-0"),
        2 => (1.0, "1"),
        3 => (-1.0, "-1"),
        4 => (0.01, "0.01"),
        5 => (0.5, "0.5"),
        6 => (1e30, "1e30"),
        7 => (1e-30, "1e-30"),
        8 => (f32::from_bits(1), "subnormal"),
        9 => (f32::INFINITY, "inf"),
        10 => (f32::NEG_INFINITY, "-inf"),
        11 => (f32::NAN, "nan"),
        12 => (2.0, "2"),
        13 => (ctx.rng.below(1000) as f32 / 8.0, "small"),
        _ => (f32::from_bits(ctx.rng.u32()), "random"),
    }
}

/// integer value of the width/signedness the kind prescribes (or a 64-bit one when `wide`)
fn int_value(kind: &TypeInfoKind, v: i128, wide: bool) -> (Value, &'static str) {
    match (kind, wide) {
        (TypeInfoKind::SignedFixedPoint(FloatWidth::Width32), false) => (Value::I32(v as i32), "I32"),
        (TypeInfoKind::UnsignedFixedPoint(FloatWidth::Width32), false) => (Value::U32(v as u32), "U32"),
        (TypeInfoKind::SignedFixedPoint(_), _) => (Value::I64(v as i64), "I64"),
        _ => (Value::U64(v as u64), "U64"),
    }
}

fn offset_for(ctx: &mut Ctx, kind: &TypeInfoKind, o: i128) -> FixedPointValue {
    let w32 = matches!(kind, TypeInfoKind::SignedFixedPoint(FloatWidth::Width32) | TypeInfoKind::UnsignedFixedPoint(FloatWidth::Width32));
    if (w32 || ctx.rng.chance(1, 3)) && o >= i32::MIN as i128 && o <= i32::MAX as i128 {
        FixedPointValue::I32(o as i32)
    } else {
        FixedPointValue::I64(o as i64)
    }
}

/// numerically delicate families: values on f64 rounding ties, products a hair below an
/// integer, exact powers of two around 2^63 / 2^64 / 2^53, each with offsets that keep the
/// sum inside the range where the property prescribes the exact result
fn special_family(ctx: &mut Ctx, kind: &TypeInfoKind) -> Option<(Value, &'static str, f32, &'static str, Option<FixedPoint>)> {
    match ctx.rng.below(3) {
        0 => {
            // rounding ties of the integer -> f64 conversion: v = 2^e + m*ulp + ulp/2 + {-1,0,1}
            let e = ctx.rng.range(54, 63) as u32;
            let ulp: u128 = 1u128 << (e - 52);
            let m = ctx.rng.next() as u128 & ((1u128 << 52) - 1);
            let d = ctx.rng.below(3) as i128 - 1;
            let v = ((1u128 << e) + m * ulp + ulp / 2) as i128 + d;
            let signed = matches!(kind, TypeInfoKind::SignedFixedPoint(_));
            if signed && v >= (1i128 << 63) {
                return None;
            }
            let (value, vname) = int_value(kind, v, true);
            let (q, _qname): (f32, &'static str) = *ctx.rng.pick(&[(0.5, "0.5"), (0.25, "0.25"), (1.0, "1"), (9.5367431640625e-7, "2^-20"), (1e-9, "1e-9")]);
            let p = ((v as f64) * q as f64).trunc();
            let o: i128 = if p >= 9.2e18 {
                -(ctx.rng.range(1 << 62, (1 << 63) - 1) as i128) - ctx.rng.below(2) as i128
            } else {
                *ctx.rng.pick(&[0i128, 7, -50, 1 << 30, -(1 << 30), 1 << 40, -5]) + ctx.rng.below(3) as i128
            };
            let offset = offset_for(ctx, kind, o);
            Some((value, vname, q, "tie_family", Some(FixedPoint { quantization: q, offset })))
        }
        1 => {
            // decimal quantizations: v*q lands a hair below / above an integer
            let q: f32 = *ctx.rng.pick(&[0.1f32, 0.01, 0.001, 0.2, 0.05, 1e-4, 0.3, 0.7, 0.9, 1.1, 0.99, 0.125, 1e-5]);
            let n = match ctx.rng.below(3) {
                0 => ctx.rng.range(1, 1000),
                1 => ctx.rng.range(1, 1_000_000),
                _ => ctx.rng.range(1, 20_000_000),
            };
            let v = ((n as f64) / (q as f64)).round() as i128 + ctx.rng.below(3) as i128 - 1;
            let w32 = matches!(kind, TypeInfoKind::SignedFixedPoint(FloatWidth::Width32) | TypeInfoKind::UnsignedFixedPoint(FloatWidth::Width32));
            if v < 0 || (w32 && v > i32::MAX as i128) {
                return None;
            }
            let (value, vname) = int_value(kind, v, false);
            let o: i128 = match ctx.rng.below(8) {
                0 => 1 << 28,
                1 => 1 << 30,
                2 => i32::MAX as i128 - ctx.rng.below(100) as i128,
                3 => 1 << 40,
                4 => -(ctx.rng.below(1000) as i128),
                5 => 0,
                6 => (1 << 53) + ctx.rng.below(5) as i128,
                _ => ctx.rng.next() as i64 as i128 >> ctx.rng.below(40),
            };
            let offset = offset_for(ctx, kind, o);
            Some((value, vname, q, "near_integer_family", Some(FixedPoint { quantization: q, offset })))
        }
        _ => {
            // exact powers of two: v = 2^a, q = 2^b, product 2^(a+b) around 2^53, 2^62..2^64
            let target = *ctx.rng.pick(&[63i32, 63, 62, 64, 53, 52, 31, 32]);
            let a = ctx.rng.range(0, 63) as i32;
            let b = target - a;
            if !(-120..=120).contains(&b) {
                return None;
            }
            let signed = matches!(kind, TypeInfoKind::SignedFixedPoint(_));
            let w32 = matches!(kind, TypeInfoKind::SignedFixedPoint(FloatWidth::Width32) | TypeInfoKind::UnsignedFixedPoint(FloatWidth::Width32));
            let wide = !w32 || a > 30;
            if (signed && a >= 63) || (!wide && a > 30) {
                return None;
            }
            let v = (1i128 << a) + *ctx.rng.pick(&[0i128, 0, 0, -1, 1]);
            let (value, vname) = int_value(kind, v, wide);
            let q = (2.0f32).powi(b);
            let p = ((v as f64) * q as f64).trunc();
            let o: i128 = if p >= 9.2e18 {
                *ctx.rng.pick(&[-1i128, -2, -200, i64::MIN as i128, -(1 << 62), -(1 << 31)])
            } else {
                *ctx.rng.pick(&[-1i128, 0, 1, -200, 1 << 31, (1 << 62) - 1])
            };
            let offset = offset_for(ctx, kind, o);
            Some((value, vname, q, "power_of_two_family", Some(FixedPoint { quantization: q, offset })))
        }
    }
}

impl Monitor for M {
    fn case(&mut self, ctx: &mut Ctx) {
        let batch = if ctx.light() { 8 } else { BATCH };
        for k in 0..batch {
            // the first 19*15*3 combinations per case walk kind x value variant x fp-presence
            // systematically through the rng-independent counter, the rest is random
            let kind = if k < 19 {
                ALL_KINDS[(k + ctx.index as usize) % 19].clone()
            } else if ctx.rng.chance(3, 4) {
                // mostly the kinds for which a value is demanded
                ALL_KINDS[11 + ctx.rng.usize_below(4)].clone()
            } else {
                ctx.rng.pick(&ALL_KINDS).clone()
            };
            let fixed_kind = matches!(
                kind,
                TypeInfoKind::SignedFixedPoint(_) | TypeInfoKind::UnsignedFixedPoint(_)
            );
            let special = if fixed_kind && ctx.rng.chance(1, 3) { special_family(ctx, &kind) } else { None };
            let (value, vname, q, qname, fp) = if let Some(x) = special {
                x
            } else {
                let (value, vname) = if fixed_kind && ctx.rng.chance(3, 4) {
                    // integer values, all widths
                    let a = ctx.rng.special64();
                    match ctx.rng.below(8) {
                        0 => (Value::U8(a as u8), "U8"),
                        1 => (Value::U16(a as u16), "U16"),
                        2 => (Value::U32(a as u32), "U32"),
                        3 => (Value::U64(a), "U64"),
                        4 => (Value::I8(a as i8), "I8"),
                        5 => (Value::I16(a as i16), "I16"),
                        6 => (Value::I32(a as i32), "I32"),
                        _ => (Value::I64(a as i64), "I64"),
                    }
                } else {
                    gen_any_value(ctx)
                };
                let (q, qname) = gen_q(ctx);
                let fp = if ctx.rng.chance(5, 6) {
                    let o = ctx.rng.special64();
                    Some(FixedPoint {
                        quantization: q,
                        offset: if ctx.rng.chance(1, 2) {
                            FixedPointValue::I32(o as i32)
                        } else {
                            FixedPointValue::I64(o as i64)
                        },
                    })
                } else {
                    None
                };
                (value, vname, q, qname, fp)
            };
            let arg = Argument {
                type_info: TypeInfo {
                    kind: kind.clone(),
                    coding: StringCoding::ASCII,
                    has_variable_info: false,
                    has_trace_info: false,
                },
                name: None,
                unit: None,
                fixed_point: fp.clone(),
                value: value.clone(),
            };
            ctx.eval();
            let got = guarded(|| arg.to_real_value());
            let off: Option<i128> = fp.as_ref().map(|f| match f.offset {
                FixedPointValue::I32(x) => x as i128,
                FixedPointValue::I64(x) => x as i128,
            });
            let detail = |got: &str| {
                J::obj()
                    .set("kind", kind_name(&kind))
                    .set("value", format!("{:?}", value))
                    .set("quantization_bits", format!("{:#010x}", q.to_bits()))
                    .set("quantization", format!("{:?}", q))
                    .set("fixed_point_present", fp.is_some())
                    .set("offset", off)
                    .set("got", got)
            };
            let fval = int_as_f64(&value);
            let demanded: Option<u64> = match (fixed_kind, &fp, fval, off) {
                (true, Some(_), Some(v), Some(o)) => {
                    let p = (v * q as f64).trunc();
                    if p >= 0.0 && p < 18446744073709551616.0 {
                        let sum = (p as u64) as i128 + o;
                        if sum >= 0 && sum < (1i128 << 63) {
                            Some(sum as u64)
                        } else {
                            None
                        }
                    } else {
                        None
                    }
                }
                _ => None,
            };
            let may_be_some = fixed_kind && fp.is_some() && fval.is_some();
            let outcome = match &got {
                Err(_) => "panic",
                Ok(None) => "none",
                Ok(Some(_)) => "some",
            };
            ctx.shape(
                &(kind_name(&kind), vname, fp.is_some(), qname, off.map(|o| o.signum()), outcome, demanded.is_some()),
                may_be_some,
            );
            match got {
                Err(p) => {
                    let sign = match off {
                        Some(o) if o < 0 => "neg_offset",
                        Some(_) => "nonneg_offset",
                        None => "no_fp",
                    };
                    let _ = sign;
                    ctx.panic_violation("no_panic", &p, || detail("panic"))
                }
                Ok(r) => {
                    if r.is_some() && !may_be_some {
                        ctx.violation("some_only_for_fixed_point", kind_name(&kind), || detail(&format!("{:?}", r)));
                    } else if let Some(want) = demanded {
                        if r != Some(want) {
                            ctx.violation(
                                "value",
                                &format!("{}:{}", kind_name(&kind), if off.unwrap_or(0) < 0 { "neg_offset" } else { "nonneg_offset" }),
                                || detail(&format!("{:?}", r)).set("expected", want),
                            );
                        } else {
                            ctx.obs("value_demanded_and_equal");
                            if off.unwrap_or(0) < 0 {
                                ctx.obs("value_demanded_and_equal.negative_offset");
                            }
                        }
                    } else if may_be_some {
                        ctx.obs("totality_only");
                    } else {
                        ctx.obs("none_demanded_and_none");
                    }
                    if k == 40 {
                        ctx.sample(|| detail(&format!("{:?}", r)).set("demanded", demanded));
                    }
                }
            }
        }
    }

    fn describe(&self, ctx: &Ctx) -> J {
        super::describe(
            "arguments built directly: every kind (19) x every value variant (15) x fixed-point data absent / 32-bit / 64-bit offset x quantization classes (+-0, +-1, 0.01, 0.5, 2, 1e+-30, subnormal, +-inf, NaN, random bits) x offsets (0, extremes, small +-, powers of two, random); biased to the fixed-point kinds with integer values; one third of the fixed-point cases come from numerically delicate families: values on rounding ties of the integer->f64 conversion (2^e + m*ulp + ulp/2 +-1, e=54..63), decimal quantizations with v = round(n/q)+-1 (products a hair below/above an integer) with large offsets, exact powers of two with product 2^63 / 2^62 / 2^64 / 2^53 and negative offsets. distinct = (kind, value variant, fp present, quantization class, offset sign, outcome, value demanded); non-trivial = fixed-point kind with data and an integer value",
            &["p = trunc((v as f64)*(q as f64)); the exact value is demanded only when p >= 0 and 0 <= p+offset < 2^63, as the property states; elsewhere only totality"],
            &[("value_demanded_and_equal", super::scaled(ctx, 1000)), ("value_demanded_and_equal.negative_offset", super::scaled(ctx, 100)), ("none_demanded_and_none", super::scaled(ctx, 1000))],
        )
    }
}
