//! C18 — fixed-point arguments convert to quantization x value + offset without panicking.
//!
//! Oracle: to_real_value() never panics; Some(_) only for (fixed-point kind, fixed-point data
//! present, integer value of 8..64 bits); with p = trunc(v as f64 * q as f64): if p >= 0 and
//! 0 <= p + offset < 2^63 (exact, i128) the result must be Some(p + offset). Outside that
//! range only totality is demanded.

use crate::ctx::{guarded, Ctx, Monitor};
use crate::gen_msg::ALL_KINDS;
use crate::json::J;
use crate::refcodec::kind_name;
use dlt_core::dlt::*;

#[derive(Default)]
pub struct M {}

const BATCH: usize = 256;

fn gen_any_value(ctx: &mut Ctx) -> (Value, &'static str) {
    let a = ctx.rng.special64();
    match ctx.rng.below(15) {
        0 => (Value::Bool(a as u8), "Bool"),
        1 => (Value::U8(a as u8), "U8"),
        2 => (Value::U16(a as u16), "U16"),
        3 => (Value::U32(a as u32), "U32"),
        4 => (Value::U64(a), "U64"),
        5 => (Value::U128((a as u128) << 64 | ctx.rng.next() as u128), "U128"),
        6 => (Value::I8(a as i8), "I8"),
        7 => (Value::I16(a as i16), "I16"),
        8 => (Value::I32(a as i32), "I32"),
        9 => (Value::I64(a as i64), "I64"),
        10 => (Value::I128(((a as u128) << 64 | ctx.rng.next() as u128) as i128), "I128"),
        11 => (Value::F32(f32::from_bits(a as u32)), "F32"),
        12 => (Value::F64(f64::from_bits(a)), "F64"),
        13 => (Value::StringVal("x".into()), "String"),
        _ => (Value::Raw(vec![1, 2]), "Raw"),
    }
}

fn int_as_f64(v: &Value) -> Option<f64> {
    Some(match v {
        Value::I8(x) => *x as f64,
        Value::I16(x) => *x as f64,
        Value::I32(x) => *x as f64,
        Value::I64(x) => *x as f64,
        Value::U8(x) => *x as f64,
        Value::U16(x) => *x as f64,
        Value::U32(x) => *x as f64,
        Value::U64(x) => *x as f64,
        _ => return None,
    })
}

fn gen_q(ctx: &mut Ctx) -> (f32, &'static str) {
    match ctx.rng.below(16) {
        0 => (0.0, "0"),
        1 => (-0.0, "-0"),
        2 => (1.0, "1"),
        3 => (-1.0, "-1"),
        4 => (0.01, "0.01"),
        5 => (0.5, "0.5"),
        6 => (1e30, "1e30"),
        7 => (1e-30, "1e-30"),
        8 => (f32::from_bits(1), "subnormal"),
        9 => (f32::INFINITY, "inf"),
        10 => (f32::NEG_INFINITY, "-inf"),
        11 => (f32::NAN, "nan"),
        12 => (2.0, "2"),
        13 => (ctx.rng.below(1000) as f32 / 8.0, "small"),
        _ => (f32::from_bits(ctx.rng.u32()), "random"),
    }
}

impl Monitor for M {
    fn case(&mut self, ctx: &mut Ctx) {
        let batch = if ctx.light() { 8 } else { BATCH };
        for k in 0..batch {
            // the first 19*15*3 combinations per case walk kind x value variant x fp-presence
            // systematically through the rng-independent counter, the rest is random
            let kind = if k < 19 {
                ALL_KINDS[(k + ctx.index as usize) % 19].clone()
            } else if ctx.rng.chance(3, 4) {
                // mostly the kinds for which a value is demanded
                ALL_KINDS[11 + ctx.rng.usize_below(4)].clone()
            } else {
                ctx.rng.pick(&ALL_KINDS).clone()
            };
            let fixed_kind = matches!(
                kind,
                TypeInfoKind::SignedFixedPoint(_) | TypeInfoKind::UnsignedFixedPoint(_)
            );
            let (value, vname) = if fixed_kind && ctx.rng.chance(3, 4) {
                // integer values, all widths
                let a = ctx.rng.special64();
                match ctx.rng.below(8) {
                    0 => (Value::U8(a as u8), "U8"),
                    1 => (Value::U16(a as u16), "U16"),
                    2 => (Value::U32(a as u32), "U32"),
                    3 => (Value::U64(a), "U64"),
                    4 => (Value::I8(a as i8), "I8"),
                    5 => (Value::I16(a as i16), "I16"),
                    6 => (Value::I32(a as i32), "I32"),
                    _ => (Value::I64(a as i64), "I64"),
                }
            } else {
                gen_any_value(ctx)
            };
            let (q, qname) = gen_q(ctx);
            let fp = if ctx.rng.chance(5, 6) {
                let o = ctx.rng.special64();
                Some(FixedPoint {
                    quantization: q,
                    offset: if ctx.rng.chance(1, 2) {
                        FixedPointValue::I32(o as i32)
                    } else {
                        FixedPointValue::I64(o as i64)
                    },
                })
            } else {
                None
            };
            let arg = Argument {
                type_info: TypeInfo {
                    kind: kind.clone(),
                    coding: StringCoding::ASCII,
                    has_variable_info: false,
                    has_trace_info: false,
                },
                name: None,
                unit: None,
                fixed_point: fp.clone(),
                value: value.clone(),
            };
            ctx.eval();
            let got = guarded(|| arg.to_real_value());
            let off: Option<i128> = fp.as_ref().map(|f| match f.offset {
                FixedPointValue::I32(x) => x as i128,
                FixedPointValue::I64(x) => x as i128,
            });
            let detail = |got: &str| {
                J::obj()
                    .set("kind", kind_name(&kind))
                    .set("value", format!("{:?}", value))
                    .set("quantization_bits", format!("{:#010x}", q.to_bits()))
                    .set("quantization", format!("{:?}", q))
                    .set("fixed_point_present", fp.is_some())
                    .set("offset", off)
                    .set("got", got)
            };
            let fval = int_as_f64(&value);
            let demanded: Option<u64> = match (fixed_kind, &fp, fval, off) {
                (true, Some(_), Some(v), Some(o)) => {
                    let p = (v * q as f64).trunc();
                    if p >= 0.0 && p < 18446744073709551616.0 {
                        let sum = (p as u64) as i128 + o;
                        if sum >= 0 && sum < (1i128 << 63) {
                            Some(sum as u64)
                        } else {
                            None
                        }
                    } else {
                        None
                    }
                }
                _ => None,
            };
            let may_be_some = fixed_kind && fp.is_some() && fval.is_some();
            let outcome = match &got {
                Err(_) => "panic",
                Ok(None) => "none",
                Ok(Some(_)) => "some",
            };
            ctx.shape(
                &(kind_name(&kind), vname, fp.is_some(), qname, off.map(|o| o.signum()), outcome, demanded.is_some()),
                may_be_some,
            );
            match got {
                Err(p) => {
                    let sign = match off {
                        Some(o) if o < 0 => "neg_offset",
                        Some(_) => "nonneg_offset",
                        None => "no_fp",
                    };
                    let _ = sign;
                    ctx.panic_violation("no_panic", &p, || detail("panic"))
                }
                Ok(r) => {
                    if r.is_some() && !may_be_some {
                        ctx.violation("some_only_for_fixed_point", kind_name(&kind), || detail(&format!("{:?}", r)));
                    } else if let Some(want) = demanded {
                        if r != Some(want) {
                            ctx.violation(
                                "value",
                                &format!("{}:{}", kind_name(&kind), if off.unwrap_or(0) < 0 { "neg_offset" } else { "nonneg_offset" }),
                                || detail(&format!("{:?}", r)).set("expected", want),
                            );
                        } else {
                            ctx.obs("value_demanded_and_equal");
                            if off.unwrap_or(0) < 0 {
                                ctx.obs("value_demanded_and_equal.negative_offset");
                            }
                        }
                    } else if may_be_some {
                        ctx.obs("totality_only");
                    } else {
                        ctx.obs("none_demanded_and_none");
                    }
                    if k == 40 {
                        ctx.sample(|| detail(&format!("{:?}", r)).set("demanded", demanded));
                    }
                }
            }
        }
    }

    fn describe(&self, ctx: &Ctx) -> J {
        super::describe(
            "arguments built directly: every kind (19) x every value variant (15) x fixed-point data absent / 32-bit / 64-bit offset x quantization classes (+-0, +-1, 0.01, 0.5, 2, 1e+-30, subnormal, +-inf, NaN, random bits) x offsets (0, extremes, small +-, powers of two, random); biased to the fixed-point kinds with integer values. distinct = (kind, value variant, fp present, quantization class, offset sign, outcome, value demanded); non-trivial = fixed-point kind with data and an integer value",
            &["p = trunc((v as f64)*(q as f64)); the exact value is demanded only when p >= 0 and 0 <= p+offset < 2^63, as the property states; elsewhere only totality"],
            &[("value_demanded_and_equal", super::scaled(ctx, 1000)), ("value_demanded_and_equal.negative_offset", super::scaled(ctx, 100)), ("none_demanded_and_none", super::scaled(ctx, 1000))],
        )
    }
}
