//! C14 — header-type, message-info and type-info codes decode and re-encode consistently.
//!
//! Case index space:
//!   0                : all 256 HTYP bytes x 6 variants, through dlt_message
//!   1                : all 256 MSIN bytes, MessageType::try_from / u8::from and through dlt_message
//!   2 .. 2+W         : type-info words in blocks of 2^16; thorough: W = 65536 blocks = all 2^32 words;
//!                      quick: all 2^18 low words x 16 patterns of the ignored high bits (64 blocks)
//!   afterwards       : blocks of 2^13 random words; every 16th word also through the argument parser

use crate::ctx::{guarded, Ctx, Monitor, Tier};
use crate::json::{hex, J};
use crate::refcodec::{self, headers_len, mtype_of, tyinfo_of, tyinfo_used_mask};
use byteorder_shim::{BE, LE};
use dlt_core::dlt::*;
use dlt_core::parse::{dlt_message, ParsedMessage};
use std::convert::TryFrom;

fn msin_bits_of(t: &MessageType) -> u8 {
    refcodec::msin_bits(t)
}

/// the crate's writer API is generic over byteorder::ByteOrder; the harness only names the two
/// marker types (re-exported by dlt-core's dependency graph via the `byteorder` crate).
mod byteorder_shim {
    pub type BE = byteorder::BigEndian;
    pub type LE = byteorder::LittleEndian;
}

const BLOCK: u64 = 1 << 16;
const RANDOM_BLOCK: u64 = 1 << 13;
const HIGH_PATTERNS: [u32; 16] = [
    0x0000, 0xFFFC, 0x0004, 0x8000, 0x4000, 0x5554, 0xAAA8, 0x0008, 0x0010, 0x0100, 0x1000, 0x2000, 0x7FFC, 0x8004, 0x1234 & 0xFFFC, 0xFEDC & 0xFFFC,
];

#[derive(Default)]
pub struct M {
    accepted: u64,
}

pub fn word_blocks(tier: Tier, light: bool) -> u64 {
    if light {
        1
    } else if tier == Tier::Thorough {
        65536
    } else {
        64
    }
}

fn check_word(ctx: &mut Ctx, w: u32, accepted: &mut u64) {
    let exp = tyinfo_of(w);
    let got = TypeInfo::try_from(w);
    match (&exp, &got) {
        (None, Err(_)) => {}
        (Some(d), Ok(g)) => {
            *accepted += 1;
            if format!("{:?}", d) != format!("{:?}", g) {
                ctx.violation("typeinfo.description", refcodec::kind_name(&d.kind), || {
                    J::obj().set("word", format!("{:#010x}", w)).set("got", format!("{:?}", g)).set("expected", format!("{:?}", d))
                });
                return;
            }
            let le = g.as_bytes::<LE>();
            let be = g.as_bytes::<BE>();
            if le.len() != 4 || be.len() != 4 {
                ctx.violation("typeinfo.encoding_is_4_bytes", "len", || J::obj().set("word", format!("{:#010x}", w)));
                return;
            }
            let e = u32::from_le_bytes([le[0], le[1], le[2], le[3]]);
            if be[..] != [le[3], le[2], le[1], le[0]] {
                ctx.violation("typeinfo.byte_orders_mirror", refcodec::kind_name(&d.kind), || {
                    J::obj().set("word", format!("{:#010x}", w)).set("le", hex(&le)).set("be", hex(&be))
                });
            }
            match TypeInfo::try_from(e) {
                Ok(g2) if format!("{:?}", g2) == format!("{:?}", g) => {}
                other => ctx.violation("typeinfo.reencode_decodes_same", refcodec::kind_name(&d.kind), || {
                    J::obj().set("word", format!("{:#010x}", w)).set("reencoded", format!("{:#010x}", e)).set("got", format!("{:?}", other))
                }),
            }
            let used = tyinfo_used_mask(d);
            if (w ^ e) & used != 0 {
                ctx.violation("typeinfo.differs_only_in_unused_bits", refcodec::kind_name(&d.kind), || {
                    J::obj()
                        .set("word", format!("{:#010x}", w))
                        .set("reencoded", format!("{:#010x}", e))
                        .set("differing_used_bits", format!("{:#010x}", (w ^ e) & used))
                });
            }
            // shape: the accepted word with the format-ignored bits masked out
            ctx.shape(&(w & (used | (1 << 12) | (1 << 13))), true);
        }
        (None, Ok(g)) => ctx.violation("typeinfo.accepted_but_unsupported", &format!("kindbits={:#x},tyle={}", (w >> 4) & 0x7f, w & 0xf), || {
            J::obj().set("word", format!("{:#010x}", w)).set("got", format!("{:?}", g))
        }),
        (Some(d), Err(e)) => ctx.violation("typeinfo.refused_but_supported", refcodec::kind_name(&d.kind), || {
            J::obj().set("word", format!("{:#010x}", w)).set("error", format!("{}", e)).set("expected", format!("{:?}", d))
        }),
    }
}

/// an argument carrying the word `w` (bool / u8 / string ... whatever the word names) through the parser
fn check_word_through_parser(ctx: &mut Ctx, w: u32, be: bool, msin: u8) {
    let exp = tyinfo_of(w);
    // a value area large enough for any kind: zeros parse as empty names, lengths 0, values 0
    let mut payload = if be { w.to_be_bytes().to_vec() } else { w.to_le_bytes().to_vec() };
    payload.extend(std::iter::repeat(0u8).take(40));
    let htyp = 0x21 | if be { 2 } else { 0 };
    let total = 4 + 10 + payload.len();
    let mut b = vec![htyp, 0, (total >> 8) as u8, total as u8, msin, 1, b'A', 0, 0, 0, b'C', 0, 0, 0];
    b.extend_from_slice(&payload);
    ctx.eval();
    let res = guarded(|| dlt_message(&b, None, false).map(|(_, pm)| pm));
    let detail = |got: String| J::obj().set("word", format!("{:#010x}", w)).set("big_endian", be).set("msin", format!("{:#04x}", msin)).set("message_hex", hex(&b)).set("got", got);
    let network_trace = (msin >> 1) & 7 == 2;
    if network_trace {
        // the crate represents network-trace arguments as raw slices; demanded here: no panic,
        // and a word that names no supported kind is refused exactly as in any other message
        match (exp, res) {
            (_, Err(p)) => ctx.panic_violation("typeinfo.parser_no_panic", &p, || detail("panic".into())),
            (None, Ok(Ok(ParsedMessage::Item(m)))) => ctx.violation("typeinfo.parser_accepted_unsupported", "word:networktrace", || detail(format!("{:?}", m.payload))),
            (None, Ok(_)) => ctx.obs("typeinfo.parser_refuses_ok"),
            (Some(d), Ok(Ok(ParsedMessage::Item(_)))) => {
                let _ = d;
                ctx.obs("typeinfo.parser_accepts_ok")
            }
            (Some(d), Ok(other)) => ctx.violation("typeinfo.parser_refused_supported", &format!("{}:networktrace", refcodec::kind_name(&d.kind)), || detail(format!("{:?}", other))),
        }
        return;
    }
    match (exp, res) {
        (_, Err(p)) => ctx.panic_violation("typeinfo.parser_no_panic", &p, || detail("panic".into())),
        (Some(d), Ok(Ok(ParsedMessage::Item(m)))) => match &m.payload {
            PayloadContent::Verbose(a) if a.len() == 1 && format!("{:?}", a[0].type_info) == format!("{:?}", d) => ctx.obs("typeinfo.parser_accepts_ok"),
            other => ctx.violation("typeinfo.parser_description", refcodec::kind_name(&d.kind), || detail(format!("{:?}", other))),
        },
        (Some(d), Ok(other)) => ctx.violation("typeinfo.parser_refused_supported", refcodec::kind_name(&d.kind), || detail(format!("{:?}", other))),
        (None, Ok(Ok(ParsedMessage::Item(m)))) => ctx.violation("typeinfo.parser_accepted_unsupported", "word", || detail(format!("{:?}", m.payload))),
        (None, Ok(_)) => ctx.obs("typeinfo.parser_refuses_ok"),
    }
}

fn check_htyp(ctx: &mut Ctx) {
    // the interpreter is ~10^4 times slower: it sees every 16th byte (the residue rotates with the seed)
    let miri = ctx.miri();
    let residue = (ctx.seed % 16) as u8;
    for b in 0..=255u8 {
        if miri && b % 16 != residue {
            continue;
        }
        for variant in 0..6u8 {
            if miri && variant == 3 {
                continue;
            }
            let ueh = b & 1 != 0;
            let hl = headers_len(b);
            let payload: Vec<u8> = match variant {
                0 => vec![9, 0, 0, 0],
                1 => vec![1, 2, 3, 4, 5, 6, 7],
                2 | 4 | 5 => vec![0xff; 4],
                // counter 0x4C and length 0x5401: for HTYP 0x44 the header reads "DLT\x01"
                _ => vec![0x33; 0x5401 - hl],
            };
            let total = hl + payload.len();
            let mcnt = if variant == 3 { 0x4c } else { 0x5a };
            let mut m = vec![b, mcnt, (total >> 8) as u8, total as u8];
            // variants 4 and 5: the ECU id field is blank / starts with a byte that is not UTF-8
            // (the flag still announces the field, the decoded id is the empty string)
            let ecu_field: &[u8; 4] = match variant {
                4 => &[0, 0, 0, 0],
                5 => &[0xFF, b'C', b'U', 0],
                _ => b"ECU\0",
            };
            let ecu_want = if variant >= 4 { "" } else { "ECU" };
            if b & 4 != 0 {
                m.extend_from_slice(ecu_field);
            }
            if b & 8 != 0 {
                m.extend_from_slice(&0x01020304u32.to_be_bytes());
            }
            if b & 16 != 0 {
                m.extend_from_slice(&0x0a0b0c0du32.to_be_bytes());
            }
            if ueh {
                // non-verbose log/info
                m.extend_from_slice(&[0x40, 0, b'A', b'P', b'P', 0, b'C', b'T', b'X', 0]);
            }
            m.extend_from_slice(&payload);
            ctx.eval();
            let res = guarded(|| dlt_message(&m, None, false).map(|(r, pm)| (r.len(), pm)));
            let detail = |got: String| J::obj().set("htyp", format!("{:#04x}", b)).set("message_hex", hex(&m)).set("got", got);
            ctx.shape(&("htyp", b, variant), true);
            match res {
                Err(p) => ctx.panic_violation("htyp.no_panic", &p, || detail("panic".into())),
                Ok(Ok((0, ParsedMessage::Item(msg)))) => {
                    let h = &msg.header;
                    let ok = h.version == b >> 5
                        && h.has_extended_header == ueh
                        && (h.endianness == Endianness::Big) == (b & 2 != 0)
                        && h.ecu_id.is_some() == (b & 4 != 0)
                        && h.session_id.is_some() == (b & 8 != 0)
                        && h.timestamp.is_some() == (b & 16 != 0)
                        && h.session_id.map_or(true, |s| s == 0x01020304)
                        && h.timestamp.map_or(true, |s| s == 0x0a0b0c0d)
                        && h.ecu_id.as_deref().map_or(true, |s| s == ecu_want)
                        && h.message_counter == mcnt
                        && msg.extended_header.is_some() == ueh;
                    if !ok {
                        ctx.violation("htyp.decodes_per_layout", &format!("{:#04x}", b), || detail(format!("{:?}", h)));
                    } else if h.header_type_byte() != b {
                        ctx.violation("htyp.reencodes_same", &format!("{:#04x}", b), || detail(format!("header_type_byte {:#04x}", h.header_type_byte())));
                    } else if h.as_bytes().first() != Some(&b) {
                        ctx.violation("htyp.reencodes_same", &format!("as_bytes:{:#04x}", b), || detail(hex(&h.as_bytes())));
                    } else if {
                        // the re-encoded header equals the input bytes; where the id field held bytes that
                        // are not UTF-8 (variant 5) the id itself cannot be reproduced and is left out
                        let mut got = h.as_bytes();
                        let mut want = m[..hl - if ueh { 10 } else { 0 }].to_vec();
                        if variant == 5 && b & 4 != 0 && got.len() >= 8 && want.len() >= 8 {
                            got[4..8].copy_from_slice(&[0; 4]);
                            want[4..8].copy_from_slice(&[0; 4]);
                        }
                        got != want
                    } {
                        ctx.violation("htyp.standard_header_bytes", &format!("{:#04x}", b), || detail(hex(&h.as_bytes())));
                    } else {
                        ctx.obs("htyp.ok");
                    }
                }
                Ok(other) => ctx.violation("htyp.parses", &format!("{:#04x}", b), || detail(format!("{:?}", other))),
            }
        }
    }
}

fn check_msin(ctx: &mut Ctx) {
    let miri = ctx.miri();
    let residue = (ctx.seed % 8) as u8;
    for b in 0..=255u8 {
        if miri && b % 8 != residue {
            continue;
        }
        ctx.eval();
        ctx.shape(&("msin", b), true);
        let exp = mtype_of(b);
        let got = guarded(|| MessageType::try_from(b));
        let detail = |got: String| J::obj().set("msin", format!("{:#04x}", b)).set("expected", format!("{:?}", exp)).set("got", got);
        match got {
            Err(p) => ctx.panic_violation("msin.no_panic", &p, || detail("panic".into())),
            Ok(Err(e)) => ctx.violation("msin.decodes", &format!("{:#04x}", b), || detail(format!("{}", e))),
            Ok(Ok(t)) => {
                if format!("{:?}", t) != format!("{:?}", exp) || msin_bits_of(&t) != msin_bits_of(&exp) {
                    ctx.violation("msin.decodes_per_layout", &format!("mstp={}", (b >> 1) & 7), || detail(format!("{:?}", t)));
                } else {
                    let back = guarded(|| u8::from(&t));
                    match back {
                        Err(p) => ctx.panic_violation("msin.no_panic", &p, || detail("panic in u8::from".into())),
                        Ok(x) if x | (b & 1) == b && x & 1 == 0 => ctx.obs("msin.ok"),
                        Ok(x) => ctx.violation("msin.reencodes_same", &format!("mstp={}", (b >> 1) & 7), || detail(format!("{:#04x}", x))),
                    }
                }
            }
        }
        // through the parser and ExtendedHeader::as_bytes
        let verbose = b & 1 != 0;
        let is_ctrl = (b >> 1) & 7 == 3;
        let payload: Vec<u8> = if verbose { vec![] } else if is_ctrl { vec![0x11, 1] } else { vec![1, 0, 0, 0, 9] };
        let total = 14 + payload.len();
        let mut m = vec![0x21, 0, (total >> 8) as u8, total as u8, b, 0, b'A', b'B', 0, 0, b'C', b'D', b'E', b'F'];
        m.extend_from_slice(&payload);
        ctx.eval();
        let res = guarded(|| dlt_message(&m, None, false).map(|(_, pm)| pm));
        let detail = |got: String| J::obj().set("msin", format!("{:#04x}", b)).set("message_hex", hex(&m)).set("got", got);
        match res {
            Err(p) => ctx.panic_violation("msin.no_panic", &p, || detail("panic".into())),
            Ok(Ok(ParsedMessage::Item(msg))) => match &msg.extended_header {
                Some(x) if format!("{:?}", x.message_type) == format!("{:?}", exp) && x.verbose == verbose && x.argument_count == 0 && x.application_id == "AB" && x.context_id == "CDEF" => {
                    let back = x.as_bytes();
                    if back[..] != m[4..14] {
                        ctx.violation("msin.extended_header_bytes", &format!("mstp={}", (b >> 1) & 7), || detail(hex(&back)));
                    } else {
                        ctx.obs("msin.parser_ok");
                    }
                }
                other => ctx.violation("msin.parser_decodes_per_layout", &format!("mstp={}", (b >> 1) & 7), || detail(format!("{:?}", other))),
            },
            Ok(other) => ctx.violation("msin.parses", &format!("{:#04x}", b), || detail(format!("{:?}", other))),
        }
    }
}

impl Monitor for M {
    fn case(&mut self, ctx: &mut Ctx) {
        let light = ctx.light();
        let wb = word_blocks(ctx.tier, light);
        let i = ctx.index;
        if i == 0 {
            ctx.obs("chunks.htyp_all_256");
            check_htyp(ctx);
            return;
        }
        if i == 1 {
            ctx.obs("chunks.msin_all_256");
            check_msin(ctx);
            return;
        }
        let i = i - 2;
        let mut accepted = 0u64;
        if i < wb {
            ctx.obs("chunks.typeinfo_enumerated_blocks");
            let n = if ctx.miri() { 96 } else if light { 2048 } else { BLOCK };
            if ctx.tier == Tier::Thorough && !light {
                // block i = all words with high half i
                for lo in 0..n {
                    check_word(ctx, ((i as u32) << 16) | lo as u32, &mut accepted);
                }
            } else {
                // quick: low 18 bits enumerated completely (4 blocks) under 16 high patterns
                let pat = HIGH_PATTERNS[(i / 4) as usize % 16];
                let lo_base = (i % 4) * BLOCK;
                for lo in 0..n {
                    let low18 = if ctx.miri() { ((lo * 2731 + ctx.seed * 97) % (1 << 18)) as u32 } else { (lo_base + lo) as u32 };
                    let w = (pat << 16) | (low18 & 0x3FFFF);
                    check_word(ctx, w, &mut accepted);
                    if i < 4 {
                        // byte-order confusions and shifted copies of every 18-bit word: a decoder
                        // must not "repair" a word that names no kind in its low half
                        let mut dummy = 0u64;
                        check_word(ctx, w.swap_bytes(), &mut dummy);
                        check_word(ctx, w.rotate_left(16), &mut dummy);
                        check_word(ctx, w << 8, &mut dummy);
                        check_word(ctx, w << 14, &mut dummy);
                    }
                }
            }
            ctx.evals(if i < 4 && !(ctx.tier == Tier::Thorough && !light) { n * 5 } else { n });
        } else {
            ctx.obs("chunks.typeinfo_random_blocks");
            let n = if ctx.miri() { 48 } else if light { 512 } else { RANDOM_BLOCK };
            for k in 0..n {
                // random words, biased to words that name exactly one kind so that the accepted
                // side is exercised as heavily as the rejected side
                let mut w = ctx.rng.u32();
                if k % 2 == 0 {
                    let kind = 1u32 << ctx.rng.range(4, 10);
                    w = (w & !0x7F0) | kind;
                }
                if k % 8 == 3 {
                    // the other byte order's image of a word naming one kind
                    w = w.swap_bytes();
                }
                check_word(ctx, w, &mut accepted);
                if k % 16 == 0 || k % 16 == 3 {
                    check_word_through_parser(ctx, w, k % 32 < 16, 0x41);
                    // the same argument inside a network-trace message (MSTP 2)
                    check_word_through_parser(ctx, w, k % 32 < 16, 0x15);
                }
                if k % 512 == 7 {
                    // the raw-data word and its byte-order images, in both message byte orders and types
                    for x in [0x0000_0400u32, 0x0004_0000, 0x0000_0004, 0x0400_0000, 0x0000_0200, 0x0002_0000, 0x0000_0010, 0x1000_0000] {
                        for be in [false, true] {
                            check_word_through_parser(ctx, x, be, 0x41);
                            check_word_through_parser(ctx, x, be, 0x15);
                        }
                    }
                }
            }
            ctx.evals(n);
        }
        self.accepted += accepted;
        ctx.obs_n("typeinfo.accepted_words", accepted);
        if i % 1000 == 3 {
            ctx.sample(|| {
                let w = 0x0000_8251u32 ^ (i as u32);
                J::obj().set("word", format!("{:#010x}", w)).set("reference_accepts", tyinfo_of(w).is_some()).set("crate", format!("{:?}", TypeInfo::try_from(w).ok()))
            });
        }
    }

    fn describe(&self, ctx: &Ctx) -> J {
        let light = ctx.light();
        let thorough = ctx.tier == Tier::Thorough && !light;
        super::describe(
            if thorough {
                "exhaustive: all 256 HTYP bytes x 6 variants (one with counter 0x4C / length 0x5401) through dlt_message/header_type_byte/as_bytes; all 256 MSIN bytes through MessageType::try_from, u8::from, dlt_message and ExtendedHeader::as_bytes; ALL 2^32 type-info words through TypeInfo::try_from / as_bytes in both byte orders (65536 blocks of 65536), plus random words through the argument parser in both byte orders. distinct = accepted words with the format-ignored bits masked out (plus 1536 HTYP and 256 MSIN cases); every accepted word is non-trivial"
            } else {
                "all 256 HTYP bytes x 6 variants (one with counter 0x4C / length 0x5401, so that HTYP 0x44 yields a header reading 'DLT\\x01'); all 256 MSIN bytes; type-info words: all 2^18 values of bits 0-17 under 16 patterns of the reserved bits 18-31 (64 blocks of 65536), for the first pattern also the byte-swapped / rotated / shifted images of every word, then blocks of 8192 random words (half of them forced to name exactly one kind), every 8th random word also through the argument parser in both byte orders, inside a log message and inside a network-trace message, plus the raw/string/bool words and their byte-order images. distinct = accepted words with the format-ignored bits masked out (plus 1536 HTYP and 256 MSIN cases)"
            },
            &[
                "acceptance rule: bits 4-10 name exactly one of bool/sint/uint/float/string/raw; sint/uint TYLE 1-5 (3-4 with FIXP); float TYLE 3-4; no width constraint for bool/string/raw",
                "minimal used masks per kind: kind bits 4-10 and VARI always; TYLE for numeric kinds; FIXP for sint/uint; SCOD for string",
            ],
            &[("htyp.ok", 1536), ("msin.ok", 256), ("msin.parser_ok", 256), ("typeinfo.accepted_words", 10000)],
        )
        .set("fixed_chunks", 2 + word_blocks(ctx.tier, light))
        .set("exhaustive_space", if thorough { "2^8 HTYP x 6, 2^8 MSIN, 2^32 type-info words" } else { "2^8 HTYP x 6, 2^8 MSIN, 2^18 low type-info bits x 16 high-bit patterns" })
    }
}
