//! C12 — loading any FIBEX file ends with a model or a refusal, never a hang or panic.
//!
//! "Never loops forever" is decided as bounded progress in logical steps: during one load the
//! event reader may hand end-of-file to the loader at most EOF_BOUND times (hook counter
//! `verif_hooks::FIBEX_EOF_RETURNS`; correct code needs one or two per file), and the load may
//! use at most CPU_BOUND_S seconds of *thread CPU time*. A watchdog thread samples both; when a
//! bound is exceeded it writes the witness (case index, counters) to `hang-<engine>-<shard>.json`
//! and exits the worker with code 17; the driver records the violation and restarts the shard
//! behind that case. A separate, generous wall-clock limit is inconclusive (exit code 18).

use crate::ctx::{guarded, Ctx, Monitor};
use crate::fibexgen::*;
use crate::json::{trunc, J};
use dlt_core::fibex::{gather_fibex_data, FibexConfig};
use std::sync::atomic::{AtomicBool, AtomicU64, Ordering};
use std::sync::Arc;

pub const EOF_BOUND: u64 = 1000;
pub const CPU_BOUND_S: f64 = 10.0;
pub const WALL_BOUND_S: f64 = 300.0;
/// truncation cases: a document is covered by TRUNC_CHUNKS chunks of TRUNC_CHUNK_SIZE offsets
pub const TRUNC_CHUNKS: u64 = 48;
pub const TRUNC_CHUNK_SIZE: u64 = 256;

struct Shared {
    active: AtomicBool,
    case_index: AtomicU64,
    sub: AtomicU64,
    eof_at_start: AtomicU64,
    events_at_start: AtomicU64,
}

pub struct M {
    dir: Option<String>,
    shared: Arc<Shared>,
    watchdog_started: bool,
    base_docs: Vec<(String, Vec<u8>)>,
}

impl Default for M {
    fn default() -> Self {
        M {
            dir: None,
            shared: Arc::new(Shared {
                active: AtomicBool::new(false),
                case_index: AtomicU64::new(0),
                sub: AtomicU64::new(0),
                eof_at_start: AtomicU64::new(0),
                events_at_start: AtomicU64::new(0),
            }),
            watchdog_started: false,
            base_docs: vec![],
        }
    }
}

fn thread_cpu_ns(task_path: &str) -> Option<u64> {
    // user-mode CPU time only (see ctx::thread_user_cpu_ns for why not the on-CPU time of schedstat)
    crate::ctx::thread_user_cpu_ns(task_path)
}

impl M {
    fn start_watchdog(&mut self, ctx: &Ctx) {
        if self.watchdog_started {
            return;
        }
        self.watchdog_started = true;
        let shared = self.shared.clone();
        let out = ctx.out_dir.clone();
        let tag = format!("{}-{}", ctx.engine.name(), ctx.shard);
        let seed = ctx.seed;
        // interpreters and valgrind are orders of magnitude slower: there the CPU bound is only a backstop
        // (the logical end-of-file bound stays as it is)
        let cpu_bound_s = match ctx.engine {
            crate::ctx::Engine::Miri => CPU_BOUND_S * 360.0,
            crate::ctx::Engine::Memcheck => CPU_BOUND_S * 60.0,
            crate::ctx::Engine::Asan => CPU_BOUND_S * 6.0,
            _ => CPU_BOUND_S,
        };
        let wall_bound_s = if ctx.light() { WALL_BOUND_S * 24.0 } else { WALL_BOUND_S };
        // the loader runs on the main thread; its task path lets the watchdog read its CPU time
        let task = std::fs::read_link("/proc/thread-self").ok().map(|p| p.to_string_lossy().into_owned());
        std::thread::spawn(move || {
            let mut load_started: Option<(u64, u64, std::time::Instant, Option<u64>)> = None;
            loop {
                std::thread::sleep(std::time::Duration::from_millis(15));
                if !shared.active.load(Ordering::SeqCst) {
                    load_started = None;
                    continue;
                }
                let idx = shared.case_index.load(Ordering::SeqCst);
                let sub = shared.sub.load(Ordering::SeqCst);
                let cpu_now = task.as_ref().and_then(|t| thread_cpu_ns(t));
                match &load_started {
                    Some((i, s, _, _)) if *i == idx && *s == sub => {}
                    _ => load_started = Some((idx, sub, std::time::Instant::now(), cpu_now)),
                }
                let (_, _, t0, cpu0) = load_started.as_ref().unwrap();
                let eof = dlt_core::verif_hooks::FIBEX_EOF_RETURNS.load(Ordering::Relaxed) - shared.eof_at_start.load(Ordering::SeqCst);
                let events = dlt_core::verif_hooks::FIBEX_XML_EVENTS.load(Ordering::Relaxed) - shared.events_at_start.load(Ordering::SeqCst);
                let cpu_s = match (cpu_now, cpu0) {
                    (Some(a), Some(b)) => (a.saturating_sub(*b)) as f64 / 1e9,
                    _ => 0.0,
                };
                let wall_s = t0.elapsed().as_secs_f64();
                let reason = if eof > EOF_BOUND {
                    Some(("eof_returned_again_and_again", 17))
                } else if cpu_s > cpu_bound_s {
                    Some(("cpu_time_bound", 17))
                } else if wall_s > wall_bound_s {
                    Some(("wall_clock_watchdog", 18))
                } else {
                    None
                };
                if let Some((why, code)) = reason {
                    if let Some(d) = &out {
                        let j = J::obj()
                            .set("prop", "C12")
                            .set("seed", seed)
                            .set("index", idx)
                            .set("sub", sub)
                            .set("reason", why)
                            .set("eof_returns_during_load", eof)
                            .set("xml_events_during_load", events)
                            .set("thread_cpu_s", format!("{:.3}", cpu_s))
                            .set("wall_s", format!("{:.3}", wall_s));
                        let _ = std::fs::write(format!("{}/hang-{}.json", d, tag), j.to_string());
                    } else {
                        println!("  violated clause=bounded_progress reason={} eof_returns={} xml_events={} cpu_s={:.3}", why, eof, events, cpu_s);
                    }
                    std::process::exit(code);
                }
            }
        });
    }

    fn scratch(&mut self, ctx: &Ctx) -> String {
        if self.dir.is_none() {
            let base = ctx.out_dir.clone().unwrap_or_else(|| std::env::temp_dir().to_string_lossy().into_owned());
            let d = format!("{}/fibex-{}-{}-{}", base, ctx.prop, ctx.engine.name(), ctx.shard);
            let _ = std::fs::create_dir_all(&d);
            self.dir = Some(d);
        }
        self.dir.clone().unwrap()
    }

    /// base document number `n`: a generated FIBEX document, or (every 8th) a repository sample
    fn base_doc(&self, seed: u64, n: u64, miri: bool) -> (Vec<u8>, String) {
        if !miri && n % 8 == 0 && !self.base_docs.is_empty() {
            let (name, d) = &self.base_docs[(n / 8) as usize % self.base_docs.len()];
            return (d.clone(), name.clone());
        }
        let mut grng = crate::rng::Rng::for_case(seed, "C12-base", n);
        let small = grng.chance(1, 2) || miri;
        let model = gen_model(&mut grng, small);
        let els: Vec<El> = gen_layout(&mut grng, &model).files.into_iter().flatten().collect();
        let mut d = emit_file(&mut grng, &els).into_bytes();
        // keep documents inside the exhaustively covered range
        d.truncate((TRUNC_CHUNKS * TRUNC_CHUNK_SIZE - 1) as usize);
        (d, "generated".into())
    }

    /// one monitored load
    fn load(&mut self, ctx: &mut Ctx, paths: Vec<String>, sub: u64, label: &str, ctx_label: &str, doc: Option<&[u8]>) {
        ctx.eval();
        ctx.mark(sub as u32);
        let sh = self.shared.clone();
        sh.case_index.store(ctx.index, Ordering::SeqCst);
        sh.sub.store(sub, Ordering::SeqCst);
        let eof0 = dlt_core::verif_hooks::FIBEX_EOF_RETURNS.load(Ordering::Relaxed);
        let ev0 = dlt_core::verif_hooks::FIBEX_XML_EVENTS.load(Ordering::Relaxed);
        sh.eof_at_start.store(eof0, Ordering::SeqCst);
        sh.events_at_start.store(ev0, Ordering::SeqCst);
        sh.active.store(true, Ordering::SeqCst);
        let res = guarded(|| {
            let m = gather_fibex_data(FibexConfig { fibex_file_paths: paths.clone() });
            // what comes back must be usable: every string of a returned model holds valid UTF-8
            (m.is_some(), m.as_ref().and_then(invalid_string_in_model))
        });
        let invalid_str = res.as_ref().ok().and_then(|r| r.1.clone());
        let res = res.map(|r| r.0);
        sh.active.store(false, Ordering::SeqCst);
        let eof = dlt_core::verif_hooks::FIBEX_EOF_RETURNS.load(Ordering::Relaxed) - eof0;
        let ev = dlt_core::verif_hooks::FIBEX_XML_EVENTS.load(Ordering::Relaxed) - ev0;
        ctx.obs_n("hook.xml_events", ev);
        ctx.obs_n("hook.eof_returns", eof);
        let outcome = match &res {
            Err(_) => "panic",
            Ok(true) => "model",
            Ok(false) => "refused",
        };
        ctx.shape(&(label.to_string(), ctx_label.to_string(), outcome), true);
        ctx.obs_dyn(format!("damage.{}.{}", label, outcome));
        ctx.obs_dyn(format!("context.{}", ctx_label));
        if let Err(p) = res {
            let text = doc.map(|d| trunc(&String::from_utf8_lossy(d), 6000));
            ctx.panic_violation("load.no_panic", &p, || J::obj().set("damage", label).set("context", ctx_label).set("document", text).set("paths", paths.join(",")));
        }
        if let Some(place) = invalid_str {
            let text = doc.map(|d| trunc(&String::from_utf8_lossy(d), 6000));
            ctx.violation("load.model_strings_valid_utf8", &place, || J::obj().set("damage", label).set("context", ctx_label).set("document", text).set("where", place.clone()));
        }
        if eof > EOF_BOUND {
            // finished, but only after being handed end-of-file absurdly often
            ctx.violation("bounded_progress", "eof_returned_again_and_again", || J::obj().set("damage", label).set("eof_returns", eof));
        }
    }
}

impl Monitor for M {
    fn case(&mut self, ctx: &mut Ctx) {
        self.start_watchdog(ctx);
        let dir = self.scratch(ctx);
        if self.base_docs.is_empty() {
            // the two repository samples (when present) join the generated base documents
            for f in ["/repo/tests/dlt-messages.xml", "/repo/tests/robustness.xml"] {
                if let Ok(d) = std::fs::read(f) {
                    self.base_docs.push((f.to_string(), d));
                }
            }
            if self.base_docs.is_empty() {
                self.base_docs.push(("builtin".into(), b"<FIBEX><ELEMENTS><PDUS><PDU ID=\"P\"><BYTE-LENGTH>1</BYTE-LENGTH></PDU></PDUS></ELEMENTS></FIBEX>".to_vec()));
            }
        }
        let idx = ctx.index;
        // fixed probes, executed on every run (case 0): documents that are known to matter.
        // "<!-->": a comment whose closing "-->" re-uses the dashes of its opening "<!--"
        if idx == 0 {
            for (k, text) in ["<?xml version=\"1.0\"?><FIBEX><!--></FIBEX>", "<FIBEX><ELEMENTS><!---></ELEMENTS></FIBEX>", "<!-->",
                // the same comment directly behind an element after which the loader returns to its caller
                "<FIBEX><ELEMENTS><PDU ID=\"P\"><BYTE-LENGTH>1</BYTE-LENGTH></PDU><!--> x --><SIGNAL ID=\"S\"><CODING-REF ID-REF=\"C\"/></SIGNAL></ELEMENTS></FIBEX>",
                "<FIBEX><ELEMENTS><FRAME ID=\"F\"><SHORT-NAME>n</SHORT-NAME><BYTE-LENGTH>1</BYTE-LENGTH></FRAME><!--> x --></ELEMENTS></FIBEX>",
                "<FIBEX><ELEMENTS><PDU ID=\"P\"><!--> x --><BYTE-LENGTH>1</BYTE-LENGTH></PDU></ELEMENTS></FIBEX>",
                "<FIBEX><ELEMENTS><CODING ID=\"C\"><CODED-TYPE BASE-DATA-TYPE=\"A_UINT8\"/></CODING><![CDATA[]]><!DOCTYPE><!--></ELEMENTS></FIBEX>",
                // the same inside text-valued elements, behind a sibling whose text was read just before
                "<FIBEX><ELEMENTS><PDU ID=\"P\"><SHORT-NAME>name</SHORT-NAME><DESC><!--> y --></DESC><BYTE-LENGTH>1</BYTE-LENGTH></PDU></ELEMENTS></FIBEX>",
                "<FIBEX><ELEMENTS><PDU ID=\"P\"><DESC>d</DESC><SHORT-NAME><!--> y --></SHORT-NAME><BYTE-LENGTH><!-->1</BYTE-LENGTH></PDU></ELEMENTS></FIBEX>",
                "<FIBEX><ELEMENTS><FRAME ID=\"F\"><SHORT-NAME>n</SHORT-NAME><BYTE-LENGTH>1</BYTE-LENGTH><FRAME-TYPE><!--> t --></FRAME-TYPE><MANUFACTURER-EXTENSION><APPLICATION_ID>A</APPLICATION_ID><CONTEXT_ID><!--> c --></CONTEXT_ID><MESSAGE_TYPE><![CDATA[]]></MESSAGE_TYPE><MESSAGE_INFO><!---></MESSAGE_INFO></MANUFACTURER-EXTENSION></FRAME></ELEMENTS></FIBEX>",
                "<FIBEX><ELEMENTS><PDU ID=\"P\"><BYTE-LENGTH>1</BYTE-LENGTH><SIGNAL-INSTANCES><SIGNAL-INSTANCE ID=\"s\"><SEQUENCE-NUMBER><!--> 1 --></SEQUENCE-NUMBER><SIGNAL-REF ID-REF=\"S_BOOL\"/></SIGNAL-INSTANCE></SIGNAL-INSTANCES><PDU-TYPE><!--></PDU-TYPE></PDU></ELEMENTS></FIBEX>", "<FIBEX><![CDATA[]]></FIBEX>", "<FIBEX><!DOCTYPE></FIBEX>", "<FIBEX><!></FIBEX>", "<FIBEX><?></FIBEX>"].iter().enumerate() {
                let g = format!("{}/probe{}.xml", dir, k);
                let _ = std::fs::write(&g, text.as_bytes());
                ctx.obs("probes.fixed_documents");
                self.load(ctx, vec![g], 20 + k as u64, "probe_degenerate_markup", "top", Some(text.as_bytes()));
            }
        }
        // special path cases
        if idx % 997 == 1 {
            let which = (idx / 997) % 6;
            let paths = match which {
                0 => vec![format!("{}/does-not-exist.xml", dir)],
                1 => vec![String::new()],
                2 => vec![dir.clone()], // a directory
                3 => {
                    let p = format!("{}/empty.xml", dir);
                    let _ = std::fs::write(&p, b"");
                    vec![p]
                }
                4 => vec![],
                _ => vec![format!("{}/a\u{0}b.xml", dir)],
            };
            let label = ["nonexistent_path", "empty_path", "directory", "empty_file", "no_paths", "nul_in_path"][which as usize];
            self.load(ctx, paths, 0, label, "path", None);
            return;
        }
        // even indices: truncation chunks (every offset of every document, exhaustively);
        // odd indices: 16 other damage operators applied to a document
        let doc_no = if idx % 2 == 0 { (idx / 2) / TRUNC_CHUNKS } else { (idx / 2) / 4 };
        let (doc, origin) = self.base_doc(ctx.seed, doc_no, ctx.miri());
        if origin != "generated" {
            ctx.obs("base.repository_sample");
        } else {
            ctx.obs("base.generated");
        }
        let p = format!("{}/d.xml", dir);
        if idx % 2 == 0 {
            let chunk = (idx / 2) % TRUNC_CHUNKS;
            if chunk == 0 {
                ctx.obs("truncation.documents_started");
                // the undamaged base document must load at all (otherwise damage is meaningless)
                let g = format!("{}/base.xml", dir);
                let _ = std::fs::write(&g, &doc);
                self.load(ctx, vec![g], 2, "undamaged", "top", Some(&doc));
            }
            let lo = (chunk * TRUNC_CHUNK_SIZE) as usize;
            let hi = (((chunk + 1) * TRUNC_CHUNK_SIZE) as usize).min(doc.len() + 1);
            let step = if ctx.miri() { 131 } else if ctx.light() { 37 } else { 1 };
            let mut off = lo;
            while off < hi {
                let cl = context_at(&doc, off);
                if let Err(e) = std::fs::write(&p, &doc[..off]) {
                    ctx.harness_error(format!("cannot write scratch file: {}", e));
                    return;
                }
                self.load(ctx, vec![p.clone()], 1000 + off as u64, "truncate", cl, Some(&doc[..off]));
                ctx.obs("truncation.offsets_tried");
                off += step;
            }
            if hi == doc.len() + 1 && lo < hi {
                ctx.obs("truncation.documents_finished");
            }
            if chunk == 1 {
                ctx.sample(|| J::obj().set("damage", "truncate at every offset").set("document_len", doc.len()).set("origin", origin.clone()).set("document_head", trunc(&String::from_utf8_lossy(&doc), 400)));
            }
            return;
        }
        for rep in 0..(if ctx.miri() { 2u64 } else { 16u64 }) {
            let op = 1 + ((idx / 2 + rep) as usize % (DAMAGE_OPS.len() - 1));
            let sys = ctx.rng.next();
            let (damaged, name, at) = damage(&mut ctx.rng, &doc, op, sys);
            let cl = context_at(&doc, at.min(doc.len()));
            if let Err(e) = std::fs::write(&p, &damaged) {
                ctx.harness_error(format!("cannot write scratch file: {}", e));
                return;
            }
            // sometimes several files of which only one is damaged
            let paths = if ctx.rng.chance(1, 8) {
                let good = format!("{}/good.xml", dir);
                let _ = std::fs::write(&good, &doc);
                if ctx.rng.chance(1, 2) {
                    vec![good, p.clone()]
                } else {
                    vec![p.clone(), good]
                }
            } else {
                vec![p.clone()]
            };
            self.load(ctx, paths, 1 + rep, name, cl, Some(&damaged));
            if rep == 3 {
                ctx.sample(|| J::obj().set("damage", name).set("at", at).set("context", cl).set("document_len", damaged.len()).set("document_head", trunc(&String::from_utf8_lossy(&damaged), 400)));
            }
        }
    }

    fn finish(&mut self, _ctx: &mut Ctx) {
        if let Some(d) = &self.dir {
            let _ = std::fs::remove_dir_all(d);
        }
    }

    fn describe(&self, ctx: &Ctx) -> J {
        super::describe(
            "base documents: generated FIBEX model/layout documents (up to 12 KiB) and, as every 8th document, one of the two repository samples. Even case indices: truncation, EXHAUSTIVE per document (48 chunks of 256 offsets cover every byte offset 0..len of the document, each truncated document is loaded; the undamaged document is loaded too). Odd case indices: 16 damaged variants of a document by deletion of a start tag / end tag / whole element / attribute or its closing quote, 1-3 byte substitutions or insertions from {<,>,quote,&,NUL,FF,/,=,space,apostrophe}, oversized / malformed numbers, invalid UTF-8, BOM / CDATA / unknown entities / DOCTYPE, duplicated regions; 1/8 together with an undamaged file; plus fifteen fixed probe documents with degenerate markup ('<!-->', '<!--->', empty CDATA / DOCTYPE / '<!>' / '<?>', also directly behind a PDU / FRAME / CODING element and inside every text-valued element) loaded on every run, a damage operator that inserts such markup at every tag boundary, plus (1 in 997) nonexistent path, empty path, a directory, an empty file, no paths, NUL in the path. distinct = (damage operator, nesting context of the damage point: top / in PDU / in FRAME / in instance / in signal or coding / in tag / outside root, result class); all non-trivial",
            &[
                "bounded progress: at most 1000 end-of-file events per load (hook counter) and at most 10 s thread CPU time; wall-clock 300 s only as an inconclusive watchdog",
                "documents are below 100 KiB and load in milliseconds",
            ],
            &[("damage.truncate.refused", super::scaled(ctx, 10000)), ("damage.delete_end_tag.refused", 500), ("damage.delete_element.model", 500), ("damage.undamaged.model", 10), ("context.in_pdu", super::scaled(ctx, 2000)), ("context.in_frame", super::scaled(ctx, 2000)), ("context.in_instance", super::scaled(ctx, 2000)), ("context.in_tag", super::scaled(ctx, 2000)), ("hook.eof_returns", super::scaled(ctx, 10000)), ("truncation.documents_finished", 10)],
        )
    }
}
