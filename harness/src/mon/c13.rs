//! C13 — non-verbose argument construction decodes packed fields in order or refuses.
//!
//! Oracle: an independent decoder of the packed layout (u16 length prefix for string/raw in the
//! stated byte order, strings = exact UTF-8 of the field, trailing bytes ignored, Err iff too
//! short at some field or a string field is invalid UTF-8). Values are compared by bit
//! pattern; type info must be echoed, name/unit/fixed_point must be None. Lists containing
//! fixed-point kinds are only under the no-panic clause.

use crate::ctx::{guarded, Ctx, Monitor};
use crate::gen_msg::{gen_coding, ALL_KINDS};
use crate::json::{hex_trunc, J};
use crate::refcodec::kind_name;
use dlt_core::dlt::*;
use dlt_core::parse::construct_arguments;

#[derive(Default)]
pub struct M {}

fn rd(d: &[u8], be: bool) -> u128 {
    let mut v = 0u128;
    if be {
        for x in d {
            v = v << 8 | *x as u128;
        }
    } else {
        for x in d.iter().rev() {
            v = v << 8 | *x as u128;
        }
    }
    v
}

/// reference decoder; Err(position of the failing type)
fn ref_construct(be: bool, ts: &[TypeInfo], d: &[u8]) -> Result<Vec<Value>, (usize, &'static str)> {
    use FloatWidth::*;
    use TypeLength::*;
    let mut o = 0usize;
    let mut out = vec![];
    for (i, t) in ts.iter().enumerate() {
        let mut take = |n: usize| -> Result<&[u8], (usize, &'static str)> {
            if d.len() - o < n {
                Err((i, "too_short"))
            } else {
                o += n;
                Ok(&d[o - n..o])
            }
        };
        let v = match t.kind {
            TypeInfoKind::Bool => Value::Bool(take(1)?[0]),
            TypeInfoKind::Unsigned(BitLength8) => Value::U8(take(1)?[0]),
            TypeInfoKind::Unsigned(BitLength16) => Value::U16(rd(take(2)?, be) as u16),
            TypeInfoKind::Unsigned(BitLength32) => Value::U32(rd(take(4)?, be) as u32),
            TypeInfoKind::Unsigned(BitLength64) => Value::U64(rd(take(8)?, be) as u64),
            TypeInfoKind::Unsigned(BitLength128) => Value::U128(rd(take(16)?, be)),
            TypeInfoKind::Signed(BitLength8) => Value::I8(take(1)?[0] as i8),
            TypeInfoKind::Signed(BitLength16) => Value::I16(rd(take(2)?, be) as u16 as i16),
            TypeInfoKind::Signed(BitLength32) => Value::I32(rd(take(4)?, be) as u32 as i32),
            TypeInfoKind::Signed(BitLength64) => Value::I64(rd(take(8)?, be) as u64 as i64),
            TypeInfoKind::Signed(BitLength128) => Value::I128(rd(take(16)?, be) as i128),
            TypeInfoKind::Float(Width32) => Value::F32(f32::from_bits(rd(take(4)?, be) as u32)),
            TypeInfoKind::Float(Width64) => Value::F64(f64::from_bits(rd(take(8)?, be) as u64)),
            TypeInfoKind::StringType => {
                let l = rd(take(2)?, be) as usize;
                let f = take(l)?;
                match std::str::from_utf8(f) {
                    Ok(s) => Value::StringVal(s.to_string()),
                    Err(_) => return Err((i, "invalid_utf8")),
                }
            }
            TypeInfoKind::Raw => {
                let l = rd(take(2)?, be) as usize;
                Value::Raw(take(l)?.to_vec())
            }
            _ => return Err((i, "fixed_point_kind")),
        };
        out.push(v);
    }
    Ok(out)
}

fn vbits(v: &Value) -> String {
    match v {
        Value::F32(f) => format!("F32#{:08x}", f.to_bits()),
        Value::F64(f) => format!("F64#{:016x}", f.to_bits()),
        o => crate::json::trunc(&format!("{:?}", o), 120),
    }
}

fn put(d: &mut Vec<u8>, v: u128, n: usize, be: bool) {
    let le = v.to_le_bytes();
    if be {
        d.extend(le[..n].iter().rev());
    } else {
        d.extend_from_slice(&le[..n]);
    }
}

impl Monitor for M {
    fn case(&mut self, ctx: &mut Ctx) {
        let light = ctx.light();
        let be = ctx.rng.chance(1, 2);
        if !light && ctx.index % 4001 == 77 {
            // a list of about a million one-byte signals, payload exact and one byte short: linear code decodes
            // or refuses it in a fraction of a second; work that grows with the square of the list length runs
            // into the progress watchdog (thread CPU time per case)
            ctx.obs("lists.about_a_million_types");
            let n = ctx.rng.range(600_000, 1_200_000) as usize;
            let kinds = [TypeInfoKind::Bool, TypeInfoKind::Unsigned(TypeLength::BitLength8), TypeInfoKind::Signed(TypeLength::BitLength8)];
            let ts: Vec<TypeInfo> = (0..n)
                .map(|k| TypeInfo { kind: kinds[k % 3].clone(), coding: StringCoding::ASCII, has_variable_info: false, has_trace_info: false })
                .collect();
            let data = ctx.rng.bytes(n);
            let endianness = if be { Endianness::Big } else { Endianness::Little };
            let detail = |got: String| J::obj().set("types", format!("{} one-byte signals (bool, u8, i8 in turn)", n)).set("payload_len", data.len()).set("got", got);
            ctx.eval();
            match guarded(|| construct_arguments(endianness, &ts, &data[..n - 1]).map(|a| a.len())) {
                Err(p) => ctx.panic_violation("no_panic", &p, || detail("panic".into())),
                Ok(Ok(k)) => ctx.violation("must_refuse", "huge_list_one_byte_short", || detail(format!("Ok with {} arguments", k))),
                Ok(Err(_)) => ctx.obs("refused.huge_list_one_byte_short"),
            }
            ctx.eval();
            match guarded(|| construct_arguments(endianness, &ts, &data)) {
                Err(p) => ctx.panic_violation("no_panic", &p, || detail("panic".into())),
                Ok(Err(e)) => ctx.violation("must_succeed", "huge_list_exact", || detail(format!("{:?}", e))),
                Ok(Ok(args)) => {
                    let ok = args.len() == n
                        && [0usize, 1, 2, n / 2, n - 3, n - 2, n - 1].iter().all(|&k| match (&args[k].value, k % 3) {
                            (Value::Bool(v), 0) => *v == data[k],
                            (Value::U8(v), 1) => *v == data[k],
                            (Value::I8(v), 2) => *v == data[k] as i8,
                            _ => false,
                        });
                    if ok {
                        ctx.obs("ok.huge_list_exact");
                    } else {
                        ctx.violation("value_in_order", "huge_list", || detail(format!("{} arguments", args.len())));
                    }
                }
            }
            return;
        }
        let with_fixed = ctx.rng.chance(1, 10);
        // type list: systematic single-kind lists for the first indices, then random lists
        let supported: Vec<TypeInfoKind> = ALL_KINDS
            .iter()
            .filter(|k| !matches!(k, TypeInfoKind::SignedFixedPoint(_) | TypeInfoKind::UnsignedFixedPoint(_)))
            .cloned()
            .collect();
        let n_types = if ctx.index % 8 == 0 {
            1 + (ctx.index / 8 % 3) as usize
        } else {
            match ctx.rng.below(40) {
                0..=3 => 0,
                4..=7 => ctx.rng.range(10, 40) as usize,
                // lists longer than any 8-bit argument count
                8 if !light => *ctx.rng.pick(&[255usize, 256, 257, 300, 511, 512, 513, 1000]),
                _ => ctx.rng.range(1, 8) as usize,
            }
        };
        let long_list = n_types >= 255;
        if long_list {
            ctx.obs("lists.255_or_more_types");
        }
        let mut ts: Vec<TypeInfo> = vec![];
        for k in 0..n_types {
            let kind = if ctx.index % 8 == 0 && k == 0 {
                supported[(ctx.index / 8) as usize % supported.len()].clone()
            } else if with_fixed && ctx.rng.chance(1, 3) {
                ALL_KINDS[11 + ctx.rng.usize_below(4)].clone()
            } else {
                ctx.rng.pick(&supported).clone()
            };
            ts.push(TypeInfo {
                kind,
                coding: gen_coding(&mut ctx.rng),
                has_variable_info: ctx.rng.chance(1, 4),
                has_trace_info: ctx.rng.chance(1, 6),
            });
        }
        let has_fixed = ts.iter().any(|t| t.is_fixed_point());
        // exact payload from random values (fixed-point kinds get a plausible field too)
        let mut data: Vec<u8> = vec![];
        let mut bad_utf8 = false;
        for t in &ts {
            let a = ctx.rng.special64();
            let b = ctx.rng.next();
            let w = t.type_width() / 8;
            match t.kind {
                TypeInfoKind::Bool => data.push(a as u8),
                TypeInfoKind::StringType => {
                    let n = ctx.rng.size(6, if light { 20 } else if long_list { 12 } else { 300 });
                    let mut s: Vec<u8> = vec![];
                    if ctx.rng.chance(1, 10) {
                        s.extend_from_slice("\u{feff}".as_bytes()); // a byte-order mark is ordinary field content
                    }
                    while s.len() < n {
                        if ctx.rng.chance(1, 12) {
                            s.push(0); // embedded NUL is legal in a packed string field
                        } else {
                            s.extend_from_slice(ctx.rng.pick(crate::gen_msg::CHUNKS).as_bytes());
                        }
                    }
                    if ctx.rng.chance(1, 12) {
                        s.extend_from_slice(*ctx.rng.pick(crate::mutate::INVALID_UTF8));
                        bad_utf8 = true;
                    }
                    put(&mut data, s.len() as u128, 2, be);
                    data.extend_from_slice(&s);
                }
                TypeInfoKind::Raw => {
                    let n = ctx.rng.size(6, if light { 20 } else if long_list { 12 } else { 300 });
                    put(&mut data, n as u128, 2, be);
                    let r = ctx.rng.bytes(n);
                    data.extend_from_slice(&r);
                }
                TypeInfoKind::SignedFixedPoint(_) | TypeInfoKind::UnsignedFixedPoint(_) => {
                    let r = ctx.rng.bytes(w + 12);
                    data.extend_from_slice(&r);
                }
                _ => put(&mut data, (a as u128) << 64 | b as u128, w, be),
            }
        }
        let _ = bad_utf8;
        // payload variants: exact, with trailing bytes, every truncation, mutated, random
        let mut variants: Vec<(&'static str, Vec<u8>)> = vec![("exact", data.clone())];
        {
            let mut d = data.clone();
            let n = ctx.rng.range(1, 9) as usize;
            d.extend(ctx.rng.bytes(n));
            variants.push(("trailing", d));
        }
        if !data.is_empty() {
            if data.len() <= 64 && !light {
                for c in 0..data.len() {
                    variants.push(("truncated", data[..c].to_vec()));
                }
            } else {
                for _ in 0..if light { 2 } else { 8 } {
                    let c = ctx.rng.usize_below(data.len());
                    variants.push(("truncated", data[..c].to_vec()));
                }
            }
            let mut d = data.clone();
            let i = ctx.rng.usize_below(d.len());
            d[i] = match ctx.rng.below(3) {
                0 => 0xFF,
                1 => 0,
                _ => ctx.rng.u8(),
            };
            variants.push(("mutated", d));
        }
        {
            let n = ctx.rng.size(10, 80);
            variants.push(("random", ctx.rng.bytes(n)));
        }
        let endianness = if be { Endianness::Big } else { Endianness::Little };
        for (vi, (class, d)) in variants.iter().enumerate() {
            // exact-size allocation per payload: reads past the payload end leave the allocation
            let d: Box<[u8]> = d.clone().into_boxed_slice();
            let d = &d;
            ctx.eval();
            ctx.mark(vi as u32);
            let got = guarded(|| construct_arguments(endianness, &ts, d));
            let exp = ref_construct(be, &ts, d);
            let kinds: Vec<&str> = ts.iter().map(|t| kind_name(&t.kind)).collect();
            let detail = |got: String| {
                J::obj()
                    .set("big_endian", be)
                    .set("types", kinds.join(","))
                    .set("payload_hex", hex_trunc(d, 120))
                    .set("payload_len", d.len())
                    .set("variant", *class)
                    .set("expected", match &exp {
                        Ok(v) => format!("Ok[{}]", v.iter().map(vbits).collect::<Vec<_>>().join(",")),
                        Err((i, why)) => format!("Err at type {} ({})", i, why),
                    })
                    .set("got", got)
            };
            let outcome = match (&got, &exp) {
                (Err(_), _) => "panic",
                (Ok(Ok(_)), _) => "ok",
                (Ok(Err(_)), _) => "err",
            };
            ctx.shape(&(be, kinds.iter().take(6).collect::<Vec<_>>(), *class, outcome, has_fixed), !ts.is_empty());
            match got {
                Err(p) => ctx.panic_violation("no_panic", &p, || detail("panic".into())),
                Ok(res) => {
                    if has_fixed {
                        ctx.obs("fixed_point_list.no_panic_only");
                        continue;
                    }
                    match (res, &exp) {
                        (Ok(args), Ok(vals)) => {
                            let first_kind = kinds.first().copied().unwrap_or("none");
                            if args.len() != ts.len() {
                                ctx.violation("one_argument_per_type", "len", || detail(format!("{} arguments", args.len())));
                            } else if let Some(i) = (0..args.len()).find(|&i| format!("{:?}", args[i].type_info) != format!("{:?}", ts[i])) {
                                ctx.violation("type_echoed", kind_name(&ts[i].kind), || detail(format!("arg {} type {:?}", i, args[i].type_info)));
                            } else if args.iter().any(|a| a.name.is_some() || a.unit.is_some() || a.fixed_point.is_some()) {
                                ctx.violation("no_name_unit_fixedpoint", first_kind, || detail("name/unit/fixed_point present".into()));
                            } else if let Some(i) = (0..args.len()).find(|&i| vbits(&args[i].value) != vbits(&vals[i])) {
                                ctx.violation("value_in_order", &format!("{}:{}", kind_name(&ts[i].kind), if be { "be" } else { "le" }), || {
                                    detail(format!("arg {} = {}", i, vbits(&args[i].value)))
                                });
                            } else {
                                ctx.obs("ok.values_equal");
                                if *class == "trailing" {
                                    ctx.obs("ok.trailing_ignored");
                                }
                            }
                        }
                        (Err(_), Err((_, why))) => {
                            ctx.obs(if *why == "invalid_utf8" { "ok.refused_invalid_utf8" } else { "ok.refused_too_short" });
                        }
                        (Ok(args), Err((i, why))) => ctx.violation("must_refuse", why, || detail(format!("Ok with {} arguments (reference fails at type {})", args.len(), i))),
                        (Err(e), Ok(_)) => ctx.violation("must_succeed", kinds.first().copied().unwrap_or("none"), || detail(format!("Err({})", e))),
                    }
                }
            }
        }
        ctx.sample(|| {
            J::obj()
                .set("big_endian", be)
                .set("types", ts.iter().map(|t| kind_name(&t.kind)).collect::<Vec<_>>().join(","))
                .set("exact_payload_hex", hex_trunc(&data, 80))
                .set("variants", variants.len())
        });
    }

    fn describe(&self, ctx: &Ctx) -> J {
        super::describe(
            "type lists of 0-40 (1 in 40: 255 / 256 / 257 / 300 / 511-513 / 1000) supported kinds (bool, i/u 8..128, f32/f64, string, raw; any VARI/TRAI/coding flags; every kind systematically as the first element) x byte order; payload variants per list: exact encoding of random values by the reference encoder (strings with multi-byte text and embedded NULs, 1/10 starting with U+FEFF, 1/12 with invalid UTF-8), exact + trailing bytes, every truncation (<= 64 bytes) or 8 sampled ones, one mutated byte, random bytes. Lists with fixed-point kinds (10 %) only under the no-panic clause. distinct = (byte order, first six kinds, variant class, outcome); non-trivial = non-empty type list",
            &["a packed string field is the exact UTF-8 of its length-prefixed bytes (embedded NULs kept), as the property states 'strings ... preceded by a 16-bit length'"],
            &[("ok.values_equal", super::scaled(ctx, 10000)), ("ok.trailing_ignored", super::scaled(ctx, 2000)), ("ok.refused_too_short", super::scaled(ctx, 10000)), ("ok.refused_invalid_utf8", super::scaled(ctx, 200))],
        )
    }
}
