//! C01 — serialise-then-parse returns the identical message and consumes it exactly.
//!
//! For each well-formed message m (predicate checked separately from the generator) and three
//! suffixes t (empty; random bytes; bytes that are parseable as a continuation):
//!   dlt_message(m.as_bytes() ++ t) == Ok((t, Item(m)))  — m bit-exactly, t by address and length.
//! Also the argument-level inverse for both byte orders.

use crate::ctx::{guarded, Ctx, Monitor};
use crate::gen_msg::{gen_arg, gen_msg, gen_systematic, wellformed, GenOpts, SYS_PERIOD};
use crate::json::{hex_trunc, J};
use crate::refcodec::{diff_arg, diff_msg, kind_name, payload_kind, ref_encode, show_msg, tyinfo_word};
use dlt_core::dlt::*;
use dlt_core::parse::{dlt_message, ParsedMessage};

#[derive(Default)]
pub struct M {}

fn continuation(ctx: &mut Ctx, m: &Message) -> Vec<u8> {
    // bytes that a parser reading past the message end would happily accept
    match ctx.rng.below(6) {
        0 => {
            // a valid argument in the message's byte order
            let a = gen_arg(&mut ctx.rng, 40);
            let mut v = vec![];
            crate::refcodec::encode_argument(&mut v, &a, m.header.endianness == Endianness::Big);
            v
        }
        1 => {
            // another complete message of the same framing
            let mut o = GenOpts::small();
            o.force_storage = Some(m.storage_header.is_some());
            ref_encode(&gen_msg(&mut ctx.rng, &o)).bytes
        }
        2 => vec![0u8; ctx.rng.range(1, 24) as usize],
        3 => b"DLT"[..ctx.rng.range(1, 3) as usize].to_vec(),
        4 => vec![0x44, 0x4C, 0x54, 0x01],
        _ => {
            // a raw argument header announcing lots of data
            let be = m.header.endianness == Endianness::Big;
            let mut v = if be { vec![0, 0, 4, 0, 0xFF, 0xFF] } else { vec![0, 4, 0, 0, 0xFF, 0xFF] };
            v.extend(std::iter::repeat(b'A').take(ctx.rng.range(0, 40) as usize));
            v
        }
    }
}

impl Monitor for M {
    fn case(&mut self, ctx: &mut Ctx) {
        let light = ctx.light();
        if super::huge::wanted(ctx) {
            // "nothing that follows the message influences the result": 4 GiB of it
            super::huge::message_at_start_of_4gib_slice(ctx);
        }
        let (m, sys_label) = if ctx.index % 4 == 0 {
            let (m, l) = gen_systematic(&mut ctx.rng, (ctx.index / 4) % SYS_PERIOD);
            (m, Some(l))
        } else {
            let mut o = if light {
                GenOpts::small()
            } else if ctx.index % 997 == 5 {
                ctx.obs("messages.near_max_length");
                GenOpts::near_max(&mut ctx.rng)
            } else {
                GenOpts::normal()
            };
            if light {
                o.max_total = 150;
                o.typical_total = 80;
            }
            (gen_msg(&mut ctx.rng, &o), None)
        };
        if let Err(why) = wellformed(&m) {
            ctx.harness_error(format!("generator produced an ill-formed message: {} :: {}", why, show_msg(&m)));
            return;
        }
        if let Some(l) = sys_label {
            let dim = l.split(':').next().unwrap_or("").to_string();
            ctx.obs_dyn(format!("systematic.{}", dim));
            if dim == "msin" || dim == "flags" || dim == "kind" {
                ctx.obs_dyn(format!("sys.{}", l));
            }
        }
        let wsh = m.storage_header.is_some();
        let be = m.header.endianness == Endianness::Big;
        let pk = payload_kind(&m.payload);
        ctx.mark(1);
        let bytes = match guarded(|| m.as_bytes()) {
            Ok(b) => b,
            Err(p) => {
                ctx.panic_violation("serialise_no_panic", &p, || J::obj().set("message", show_msg(&m)));
                return;
            }
        };
        let suffixes: Vec<(&'static str, Vec<u8>)> = vec![
            ("empty", vec![]),
            ("random", {
                let n = ctx.rng.range(1, 40) as usize;
                ctx.rng.bytes(n)
            }),
            ("continuation", continuation(ctx, &m)),
        ];
        let mut suffixes = suffixes;
        if !light && ctx.index % 40 == 3 {
            // a long tail: the buffer behind the message is larger than any 16-bit quantity
            // (65536 +- a few, a few hundred KiB, rarely beyond 1 MiB)
            let n = match ctx.rng.below(12) {
                0 => 65536 - ctx.rng.range(0, 40) as usize,
                1 => 65536 + ctx.rng.range(0, 40) as usize,
                2 => 131072 + ctx.rng.range(0, 70000) as usize - 20,
                3 if ctx.index % 1000 == 3 => (1 << 20) + ctx.rng.range(0, 500_000) as usize,
                4..=7 => {
                    // chosen so that (bytes behind the standard header) mod 65536 is smaller than the message
                    let k = ctx.rng.range(1, 3) as usize * 65536;
                    (k + ctx.rng.usize_below(bytes.len().max(1))).saturating_sub(bytes.len())
                }
                _ => ctx.rng.range(66_000, 300_000) as usize,
            };
            let fill = match ctx.rng.below(3) {
                0 => vec![0u8; n],
                1 => vec![b'A'; n],
                _ => {
                    let unit = if bytes.len() < 4096 { bytes.clone() } else { vec![0x44, 0x4C, 0x54, 0x01, 0x35] };
                    unit.iter().cycle().take(n).cloned().collect()
                }
            };
            ctx.obs("suffix.long_tail");
            suffixes.push(("long_tail", fill));
        }
        let htyp = crate::refcodec::htyp_of(&m.header);
        let first_words: Vec<u32> = match &m.payload {
            PayloadContent::Verbose(a) => a.iter().take(8).map(|x| tyinfo_word(&x.type_info)).collect(),
            _ => vec![],
        };
        let msin = m.extended_header.as_ref().map(|x| crate::refcodec::msin_bits(&x.message_type) | x.verbose as u8);
        let noar_bucket = match &m.payload {
            PayloadContent::Verbose(a) => a.len().min(9),
            PayloadContent::NetworkTrace(a) => a.len().min(9),
            _ => 0,
        };
        for (si, (sclass, suffix)) in suffixes.iter().enumerate() {
            let mut buf = bytes.clone();
            buf.extend_from_slice(suffix);
            buf.shrink_to_fit(); // an allocation of exactly the input's size (sanitizer engines see reads behind it)
            // history: every other case parses the same bytes flagged with the other byte order first
            // (identical raw fields, to be read the other way round); the parse that follows depends on
            // its own input only
            if ctx.index % 2 == 1 && si == 0 {
                let other = crate::gen_msg::other_byte_order(&buf, wsh);
                let _ = guarded(|| dlt_message(&other, None, wsh).map(|(r, _)| r.len()));
                ctx.obs("history.other_byte_order_parsed_first");
            }
            ctx.eval();
            ctx.mark(2 + si as u32);
            let res = guarded(|| dlt_message(&buf, None, wsh).map(|(rest, pm)| (super::ptr_off(&buf, rest), rest.len(), pm)));
            let nontrivial = m.header.payload_length > 0;
            ctx.shape(
                &(wsh, htyp, msin, noar_bucket, &first_words, 64 - (bytes.len() as u64).leading_zeros(), *sclass),
                nontrivial,
            );
            let discr_base = format!("{}:{}", pk, if be { "be" } else { "le" });
            let detail = |got: String| {
                J::obj()
                    .set("message", show_msg(&m))
                    .set("serialised_hex", hex_trunc(&bytes, 160))
                    .set("serialised_len", bytes.len())
                    .set("suffix_class", *sclass)
                    .set("suffix_hex", hex_trunc(suffix, 48))
                    .set("with_storage_header", wsh)
                    .set("got", got)
            };
            match res {
                Err(p) => ctx.panic_violation("parse_no_panic", &p, || detail("panic".into())),
                Ok(Ok((off, rl, ParsedMessage::Item(pm)))) => {
                    if let Some(d) = diff_msg(&pm, &m, false) {
                        ctx.violation("identical_message", &format!("{}:{}", discr_base, d), || detail(show_msg(&pm)).set("first_difference", d.clone()));
                    } else if rl != suffix.len() || off != Some(bytes.len()) {
                        ctx.violation("remainder_is_suffix", &discr_base, || detail(format!("remainder offset {:?} len {} (expected offset {} len {})", off, rl, bytes.len(), suffix.len())));
                    } else {
                        ctx.obs("ok.roundtrip");
                        ctx.obs_dyn(format!("ok.kind.{}.{}", pk, if be { "be" } else { "le" }));
                    }
                }
                Ok(Ok((_, _, other))) => ctx.violation("yields_message", &discr_base, || detail(format!("{:?}", other))),
                Ok(Err(e)) => ctx.violation("yields_message", &format!("{}:err", discr_base), || detail(format!("Err({:?})", e))),
            }
        }
        if bytes.len() >= 60000 {
            ctx.obs("size.ge_60000");
        }
        if bytes.len() - if wsh { 16 } else { 0 } == 65535 {
            ctx.obs("size.exactly_65535");
        }
        if let PayloadContent::Verbose(args) = &m.payload {
            if args.len() == 255 {
                ctx.obs("args.255");
            }
            if args.is_empty() {
                ctx.obs("args.0");
            }
            for a in args.iter().take(4) {
                ctx.obs_dyn(format!("argkind.{}.{}.{}", kind_name(&a.type_info.kind), if a.type_info.has_variable_info { "vari" } else { "plain" }, if be { "be" } else { "le" }));
            }
            // argument-level inverse, both byte orders, via a minimal verbose wrapper
            if let Some(a) = args.first() {
                for abe in [false, true] {
                    ctx.eval();
                    ctx.mark(9);
                    let ab = guarded(|| if abe { a.as_bytes::<byteorder::BigEndian>() } else { a.as_bytes::<byteorder::LittleEndian>() });
                    let ab = match ab {
                        Ok(x) => x,
                        Err(p) => {
                            ctx.panic_violation("serialise_no_panic", &p, || J::obj().set("argument", format!("{:?}", a)));
                            continue;
                        }
                    };
                    if 14 + ab.len() > 65535 {
                        continue;
                    }
                    let total = 14 + ab.len();
                    let mut w = vec![0x21 | if abe { 2 } else { 0 }, 0, (total >> 8) as u8, total as u8, 0x41, 1, b'A', 0, 0, 0, b'C', 0, 0, 0];
                    w.extend_from_slice(&ab);
                    let res = guarded(|| dlt_message(&w, None, false).map(|(r, pm)| (r.len(), pm)));
                    let detail = |got: String| J::obj().set("argument", crate::json::trunc(&format!("{:?}", a), 600)).set("big_endian", abe).set("argument_hex", hex_trunc(&ab, 120)).set("got", got);
                    match res {
                        Err(p) => ctx.panic_violation("parse_no_panic", &p, || detail("panic".into())),
                        Ok(Ok((0, ParsedMessage::Item(pm)))) => match &pm.payload {
                            PayloadContent::Verbose(x) if x.len() == 1 => {
                                if let Some(d) = diff_arg(&x[0], a, false) {
                                    ctx.violation("argument_inverse", &format!("{}:{}:{}", kind_name(&a.type_info.kind), if abe { "be" } else { "le" }, d), || detail(format!("{:?}", x[0])));
                                } else {
                                    ctx.obs("ok.argument_inverse");
                                }
                            }
                            other => ctx.violation("argument_inverse", "shape", || detail(format!("{:?}", other))),
                        },
                        Ok(other) => ctx.violation("argument_inverse", &format!("{}:{}:noitem", kind_name(&a.type_info.kind), if abe { "be" } else { "le" }), || detail(crate::json::trunc(&format!("{:?}", other), 400))),
                    }
                }
            }
        }
        ctx.sample(|| J::obj().set("message", show_msg(&m)).set("serialised_hex", hex_trunc(&bytes, 96)).set("serialised_len", bytes.len()));
    }

    fn describe(&self, ctx: &Ctx) -> J {
        super::describe(
            "well-formed messages from the structured generator: 3/4 random (payload kinds verbose/non-verbose/control/network-trace, 0..255 arguments of all 19 kind x width combinations with/without variable info, values by bit pattern incl. NaN payloads, ids and texts with 1-4 byte scalars, all header flag sets, boundary totals 65534/65535) and 1/4 from the systematic layer (all 32 flag sets x storage x version, all 256 MSIN bytes, 19 kinds x VARI x byte order, empty payloads per kind); each parsed with 3 suffixes (empty, random bytes, parseable continuation: valid argument / next message / zeros / partial or full storage pattern / oversized raw header); every 40th case adds a long tail (65536 +- 40 bytes, 64 KiB multiples aligned so that the buffer length mod 65536 is below the message length, 66-300 KiB, rarely > 1 MiB) and 1 in 997 messages has one of the 16 largest declarable lengths; names / units / strings occasionally 32766..65534 bytes long, texts may start with U+FEFF, ids and payload data may contain the storage-header pattern, and 1 in 150 messages is the one whose standard header serialises to 'DLT\\x01'. distinct = (storage?, HTYP, MSIN, argument-count bucket, first 8 type-info words, length bucket, suffix class); non-trivial = non-empty payload",
            &["well-formedness is the quantifier text of C01, checked by a predicate written separately from the generator; a generated message failing it is a harness error, not a violation"],
            &[("ok.roundtrip", super::scaled(ctx, 100000)), ("ok.argument_inverse", super::scaled(ctx, 10000)), ("ok.kind.networktrace.be", 100), ("ok.kind.verbose.be", 100), ("ok.kind.control.le", 100), ("ok.kind.nonverbose.le", 100)],
        )
    }
}
