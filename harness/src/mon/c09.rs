//! C09 — filtering drops exactly the messages that fail the configured criteria.
//!
//! Oracle: a predicate written from the statement. With extended header: drop iff (minimum level
//! number in 1..6 and the message is a log message with a *valid* level numerically greater than
//! the minimum) or (app set given and APID not in it) or (context set given and CTID not in it)
//! or (ECU set given, header ECU id present and not in it). Without extended header: drop iff
//! (app set given and app_id_count > |set|) or (context set given and context_id_count > |set|).
//! A dropped message is FilteredOut(payload_length) with the same remainder; a kept message is
//! identical to the unfiltered parse. Both config conversions are exercised, and the blocking
//! reader with the filter must deliver the same.

use crate::ctx::{guarded, Ctx, Monitor};
use crate::gen_msg::{gen_msg, GenOpts};
use crate::iosched::{Script, SharedSource};
use crate::json::{hex_trunc, J};
use crate::refcodec::{diff_msg, msin_bits, ref_encode, show_msg};
use dlt_core::dlt::*;
use dlt_core::filtering::{DltFilterConfig, ProcessedDltFilterConfig};
use dlt_core::parse::{dlt_message, ParsedMessage};
use dlt_core::read::DltMessageReader;
use std::collections::BTreeSet;

#[derive(Default)]
pub struct M {}

use crate::filtergen::{gen_count, gen_set, POOL};

impl Monitor for M {
    fn case(&mut self, ctx: &mut Ctx) {
        let light = ctx.light();
        // ---- message: ids from the small pool so that membership goes both ways
        let mut o = GenOpts::small();
        if light {
            o.max_total = 80;
            o.typical_total = 40;
        }
        let mut m = gen_msg(&mut ctx.rng, &o);
        if let Some(x) = m.extended_header.as_mut() {
            x.application_id = ctx.rng.pick(POOL).to_string();
            x.context_id = ctx.rng.pick(POOL).to_string();
            // all log levels incl. invalid 0 and 7..15, and non-log types: 60 % log messages
            if ctx.rng.chance(3, 5) && !matches!(m.payload, PayloadContent::ControlMsg(..) | PayloadContent::NetworkTrace(_)) {
                x.message_type = crate::refcodec::mtype_of((ctx.rng.below(16) as u8) << 4);
            }
        }
        if m.header.ecu_id.is_some() {
            m.header.ecu_id = Some(ctx.rng.pick(POOL).to_string());
        }
        if let Err(why) = crate::gen_msg::wellformed(&m) {
            ctx.harness_error(format!("ill-formed message in C09: {}", why));
            return;
        }
        let wsh = m.storage_header.is_some();
        let e = ref_encode(&m);
        let mut bytes = e.bytes.clone();
        let suffix_n = ctx.rng.size(4, 20);
        bytes.extend(ctx.rng.bytes(suffix_n));
        // ---- configuration
        let min_log_level = if ctx.index % 2 == 0 {
            // systematic: all level numbers 0..255
            Some(((ctx.index / 2) % 256) as u8)
        } else {
            match ctx.rng.below(4) {
                0 => None,
                1 => Some(ctx.rng.u8()),
                _ => Some(ctx.rng.below(8) as u8),
            }
        };
        // every subset of the criteria present occurs: each is absent with probability 3/8
        let app_ids = gen_set(&mut ctx.rng);
        let ecu_ids = gen_set(&mut ctx.rng);
        let context_ids = gen_set(&mut ctx.rng);
        let cfg = DltFilterConfig {
            min_log_level,
            app_id_count: gen_count(&mut ctx.rng, &app_ids),
            context_id_count: gen_count(&mut ctx.rng, &context_ids),
            app_ids,
            ecu_ids,
            context_ids,
        };
        let by_ref = ctx.rng.chance(1, 2);
        let p: ProcessedDltFilterConfig = if by_ref { (&cfg).into() } else { cfg.clone().into() };
        // ---- predicate from the statement
        let set = |v: &Option<Vec<String>>| v.as_ref().map(|x| x.iter().cloned().collect::<BTreeSet<String>>());
        let (sa, se, sc) = (set(&cfg.app_ids), set(&cfg.ecu_ids), set(&cfg.context_ids));
        let mut reasons: Vec<&'static str> = vec![];
        if let Some(x) = &m.extended_header {
            let bits = msin_bits(&x.message_type);
            let is_log = (bits >> 1) & 7 == 0;
            let lvl = bits >> 4;
            if let Some(min @ 1..=6) = cfg.min_log_level {
                if is_log && (1..=6).contains(&lvl) && lvl > min {
                    reasons.push("level");
                }
            }
            if let Some(s) = &sa {
                if !s.contains(&x.application_id) {
                    reasons.push("app");
                }
            }
            if let Some(s) = &sc {
                if !s.contains(&x.context_id) {
                    reasons.push("context");
                }
            }
            if let (Some(s), Some(id)) = (&se, &m.header.ecu_id) {
                if !s.contains(id) {
                    reasons.push("ecu");
                }
            }
        } else {
            if let Some(s) = &sa {
                if cfg.app_id_count > s.len() as i64 {
                    reasons.push("app_count");
                }
            }
            if let Some(s) = &sc {
                if cfg.context_id_count > s.len() as i64 {
                    reasons.push("context_count");
                }
            }
        }
        let exp_drop = !reasons.is_empty();
        let mask = (cfg.min_log_level.is_some() as u8) | (cfg.app_ids.is_some() as u8) << 1 | (cfg.context_ids.is_some() as u8) << 2 | (cfg.ecu_ids.is_some() as u8) << 3;
        let mt_bits = m.extended_header.as_ref().map(|x| msin_bits(&x.message_type));
        ctx.shape(&(mask, reasons.clone(), mt_bits, m.extended_header.is_some(), m.header.ecu_id.is_some(), cfg.min_log_level.map(|l| l.min(8))), true);
        ctx.eval();
        ctx.mark(1);
        let plain = guarded(|| dlt_message(&bytes, None, wsh).map(|(r, pm)| (r.len(), pm)));
        let got = guarded(|| dlt_message(&bytes, Some(&p), wsh).map(|(r, pm)| (super::ptr_off(&bytes, r), r.len(), pm)));
        let detail = |what: String| {
            J::obj()
                .set("config", format!("{:?}", cfg))
                .set("converted_by_reference", by_ref)
                .set("message", show_msg(&m))
                .set("message_hex", hex_trunc(&e.bytes, 120))
                .set("expected_drop", exp_drop)
                .set("drop_reasons", reasons.join("+"))
                .set("what", what)
        };
        let (plain_rest, plain_msg) = match plain {
            Ok(Ok((r, ParsedMessage::Item(pm)))) => (r, pm),
            other => {
                // unfiltered parse of a well-formed message failing is C01's finding
                ctx.obs("unfiltered_parse_not_a_message(C01)");
                let _ = other;
                return;
            }
        };
        if exp_drop {
            for r in &reasons {
                ctx.obs_dyn(format!("decided.drop.{}", r));
            }
            if reasons.len() == 1 {
                ctx.obs_dyn(format!("decided_alone.drop.{}", reasons[0]));
            }
        } else {
            ctx.obs("decided.keep");
            // which present criteria voted "keep"
            if m.extended_header.is_some() {
                if matches!(cfg.min_log_level, Some(1..=6)) && mt_bits.map_or(false, |b| (b >> 1) & 7 == 0) {
                    ctx.obs("decided_alone.keep.level");
                }
                if sa.is_some() {
                    ctx.obs("decided_alone.keep.app");
                }
                if sc.is_some() {
                    ctx.obs("decided_alone.keep.context");
                }
                if se.is_some() && m.header.ecu_id.is_some() {
                    ctx.obs("decided_alone.keep.ecu");
                }
                if se.is_some() && m.header.ecu_id.is_none() {
                    ctx.obs("decided.keep.ecu_filter_but_no_ecu_id");
                }
            } else {
                if sa.is_some() {
                    ctx.obs("decided_alone.keep.app_count");
                }
                if sc.is_some() {
                    ctx.obs("decided_alone.keep.context_count");
                }
            }
            if let Some(l) = cfg.min_log_level {
                if !(1..=6).contains(&l) {
                    ctx.obs("level_number_outside_1_6_filters_nothing");
                }
            }
        }
        let discr = if exp_drop { format!("should_drop:{}", reasons.join("+")) } else { "should_keep".to_string() };
        match got {
            Err(pn) => ctx.panic_violation("filtered_parse.no_panic", &pn, || detail("panic".into())),
            Ok(Err(e2)) => ctx.violation("filtered_parse.result", &format!("{}:err", discr), || detail(format!("Err({:?})", e2))),
            Ok(Ok((off, rl, pm))) => {
                if rl != plain_rest || off != Some(bytes.len() - plain_rest) {
                    ctx.violation("filter_does_not_move_remainder", &discr, || detail(format!("remainder len {} vs unfiltered {}", rl, plain_rest)));
                }
                match (exp_drop, pm) {
                    (true, ParsedMessage::FilteredOut(n)) => {
                        if n != m.header.payload_length as usize {
                            ctx.violation("filtered_out_carries_payload_length", &discr, || detail(format!("FilteredOut({}) but payload length is {}", n, m.header.payload_length)));
                        } else {
                            ctx.obs("ok.dropped");
                        }
                    }
                    (false, ParsedMessage::Item(pm)) => {
                        if let Some(d) = diff_msg(&pm, &plain_msg, false) {
                            ctx.violation("kept_message_identical", &d, || detail(format!("kept message differs from unfiltered parse in {}", d)));
                        } else {
                            ctx.obs("ok.kept");
                        }
                    }
                    (true, other) => ctx.violation("drops_exactly", &discr, || detail(format!("not dropped: {}", crate::json::trunc(&format!("{:?}", other), 200)))),
                    (false, other) => {
                        let crit = format!("level={:?},app={},ctx={},ecu={},ext={}", cfg.min_log_level.map(|l| l.min(7)), cfg.app_ids.is_some(), cfg.context_ids.is_some(), cfg.ecu_ids.is_some(), m.extended_header.is_some());
                        ctx.violation("drops_exactly", &format!("should_keep:{}", crit), || detail(format!("not kept: {:?}", other)))
                    }
                }
            }
        }
        // the blocking reader with the same filter
        if ctx.index % 4 == 0 {
            ctx.eval();
            ctx.mark(2);
            let (src, _h) = SharedSource::new(e.bytes.clone(), Script::whole());
            let mut reader = DltMessageReader::with_capacity(65551, 65551, src, wsh);
            match guarded(|| dlt_core::read::read_message(&mut reader, Some(&p))) {
                Err(pn) => ctx.panic_violation("reader.no_panic", &pn, || detail("read_message panicked".into())),
                Ok(Ok(Some(ParsedMessage::FilteredOut(n)))) if exp_drop && n == m.header.payload_length as usize => ctx.obs("ok.reader_dropped"),
                Ok(Ok(Some(ParsedMessage::Item(pm)))) if !exp_drop && diff_msg(&pm, &plain_msg, false).is_none() => ctx.obs("ok.reader_kept"),
                Ok(other) => ctx.violation("reader.drops_exactly", &discr, || detail(format!("read_message: {}", crate::json::trunc(&format!("{:?}", other), 200)))),
            }
        }
        // one reader, several calls, a different filter per call: the same message three times,
        // read with the generated filter, then with a filter that has no criteria, then without a
        // filter, then with the generated filter again. Each call must be decided by its own filter.
        if ctx.index % 8 == 1 {
            ctx.eval();
            ctx.mark(3);
            let mut stream = vec![];
            for _ in 0..4 {
                stream.extend_from_slice(&e.bytes);
            }
            let (src, _h) = SharedSource::new(stream, Script::whole());
            let mut reader = DltMessageReader::with_capacity(65551, 65551, src, wsh);
            let permissive: ProcessedDltFilterConfig = DltFilterConfig {
                min_log_level: None,
                app_ids: None,
                ecu_ids: None,
                context_ids: None,
                app_id_count: 0,
                context_id_count: 0,
            }
            .into();
            let plan: [(Option<&ProcessedDltFilterConfig>, bool, &'static str); 4] = [(Some(&p), exp_drop, "generated"), (Some(&permissive), false, "no_criteria"), (None, false, "none"), (Some(&p), exp_drop, "generated_again")];
            for (k, (f, drop, name)) in plan.iter().enumerate() {
                match guarded(|| dlt_core::read::read_message(&mut reader, *f)) {
                    Err(pn) => {
                        ctx.panic_violation("reader.no_panic", &pn, || detail("read_message panicked".into()));
                        break;
                    }
                    Ok(Ok(Some(ParsedMessage::FilteredOut(n)))) if *drop && n == m.header.payload_length as usize => ctx.obs("ok.reader_history_dropped"),
                    Ok(Ok(Some(ParsedMessage::Item(pm)))) if !*drop && diff_msg(&pm, &plain_msg, false).is_none() => ctx.obs("ok.reader_history_kept"),
                    Ok(other) => {
                        ctx.violation("reader.each_call_decided_by_its_own_filter", &format!("call{}:{}:{}", k, name, if *drop { "should_drop" } else { "should_keep" }), || {
                            detail(format!("call {} ({} filter) on the same reader: {}", k, name, crate::json::trunc(&format!("{:?}", other), 200)))
                        });
                        break;
                    }
                }
            }
        }
        // one filter object for a long trace: the generated filter decides a maximum-size copy of the
        // situation 70 000 times in a row (> 4 GiB of payload through one object); every verdict is the first one
        if !light && ctx.index % 40_000 == 11 {
            ctx.eval();
            let n = 70_000u32;
            let want_drop = exp_drop;
            let res = guarded(|| {
                let mut wrong = 0u32;
                for _ in 0..n {
                    match dlt_message(&bytes, Some(&p), wsh) {
                        Ok((_, ParsedMessage::FilteredOut(_))) if want_drop => {}
                        Ok((_, ParsedMessage::Item(_))) if !want_drop => {}
                        _ => wrong += 1,
                    }
                }
                wrong
            });
            match res {
                Err(pn) => ctx.panic_violation("filtered_parse.no_panic", &pn, || detail(format!("one filter object used {} times", n))),
                Ok(0) => ctx.obs("ok.long_lived_filter_object"),
                Ok(w) => ctx.violation("drops_exactly", "long_lived_filter_object", || detail(format!("{} of {} repeated calls with one filter object gave another verdict", w, n))),
            }
        }
        ctx.sample(|| detail("sample".into()));
    }

    fn describe(&self, ctx: &Ctx) -> J {
        super::describe(
            "configurations: min_log_level walks all 0..255 systematically (every 2nd case) and is otherwise absent / small / random; each of the app / context / ECU id sets absent (3/8), empty, singleton, with duplicates, or 2-6 ids from a pool of 8 (incl. the empty id and a 2-byte scalar); counts below / equal to / above the de-duplicated set size, equal to the raw size, -1, i64::MIN/MAX, small; converted alternately by value and by reference. Messages: generated well-formed messages of every payload kind with APID/CTID/ECU drawn from the same pool, 60 % log messages over all 16 level codes (incl. invalid 0, 7-15), with/without extended header and header ECU id, both storage modes, random suffix bytes. Every 4th case also through read::read_message with the filter; every 8th case reads the same message four times from ONE reader with a different filter per call (generated, criteria-free, none, generated again). Filter id sets also contain ids longer than 4 bytes that share their first 4 bytes with pool ids or with each other; counts also at i64::MIN+k / i64::MAX-k. distinct = (criteria-present mask, deciding criteria, message type bits, ext header?, ECU id present?, level number bucket); all non-trivial",
            &["only well-formed messages (a malformed payload is legitimately FilteredOut with a filter and Err without)", "id sets are compared as sets (duplicates in the configuration are de-duplicated)"],
            &[
                ("ok.dropped", super::scaled(ctx, 50000)),
                ("ok.kept", super::scaled(ctx, 50000)),
                ("decided_alone.drop.level", 100),
                ("decided_alone.drop.app", 100),
                ("decided_alone.drop.context", 100),
                ("decided_alone.drop.ecu", 100),
                ("decided_alone.drop.app_count", 100),
                ("decided_alone.drop.context_count", 100),
                ("decided_alone.keep.level", 100),
                ("decided_alone.keep.app", 100),
                ("decided_alone.keep.context", 100),
                ("decided_alone.keep.ecu", 100),
                ("decided_alone.keep.app_count", 100),
                ("decided_alone.keep.context_count", 100),
                ("decided.keep.ecu_filter_but_no_ecu_id", 100),
                ("level_number_outside_1_6_filters_nothing", 100),
                ("ok.reader_dropped", 1000),
                ("ok.reader_kept", 1000),
                ("ok.reader_history_dropped", 1000),
                ("ok.reader_history_kept", 1000),
            ],
        )
    }
}
