//! C06 — storage-header resync skips exactly the bytes before the first pattern.
//!
//! Oracles: (search) naive first-occurrence scan vs forward_to_next_storage_header, offset and
//! returned slice compared by address; (parse) dlt_message(junk ++ m) == dlt_message(m) in
//! message and remainder; (stream) j0 m1 j1 ... mk jk recovered as m1..mk in order.
//!
//! Case index space:  [0, exh_chunks)  exhaustive strings over {D,L,T,01,x}
//!                    afterwards       index % 4: 0 random alphabet strings, 1 long buffers with a
//!                                     planted pattern (SIMD paths), 2 junk++message, 3 stream

use crate::ctx::{guarded, Ctx, Monitor, Tier};
use crate::gen_msg::{gen_msg, GenOpts};
use crate::json::{hex_trunc, J};
use crate::mutate::gen_junk;
use crate::refcodec::{diff_msg, find_pattern, ref_encode, show_msg};
use dlt_core::parse::{dlt_message, forward_to_next_storage_header, DltParseError, ParsedMessage};

const ALPHA: [u8; 5] = [b'D', b'L', b'T', 0x01, b'x'];
const CHUNK: u64 = 2048;

pub struct M {
    keep: dlt_core::filtering::ProcessedDltFilterConfig,
    drop: dlt_core::filtering::ProcessedDltFilterConfig,
}

impl Default for M {
    fn default() -> Self {
        let mk = |apps: Option<Vec<String>>| -> dlt_core::filtering::ProcessedDltFilterConfig {
            dlt_core::filtering::DltFilterConfig {
                min_log_level: None,
                app_ids: apps,
                ecu_ids: None,
                context_ids: None,
                app_id_count: 9,
                context_id_count: 0,
            }
            .into()
        };
        M {
            keep: mk(None),
            drop: mk(Some(vec!["\u{1}no".into()])),
        }
    }
}

fn max_len(tier: Tier, light: bool) -> u32 {
    if light {
        4
    } else if tier == Tier::Thorough {
        9
    } else {
        8
    }
}
fn n_strings(maxlen: u32) -> u64 {
    (0..=maxlen).map(|l| 5u64.pow(l)).sum()
}
pub fn exh_chunks(tier: Tier, light: bool) -> u64 {
    (n_strings(max_len(tier, light)) + CHUNK - 1) / CHUNK
}
fn nth_string(mut code: u64) -> Vec<u8> {
    let mut len = 0u32;
    loop {
        let c = 5u64.pow(len);
        if code < c {
            break;
        }
        code -= c;
        len += 1;
    }
    (0..len)
        .map(|_| {
            let s = ALPHA[(code % 5) as usize];
            code /= 5;
            s
        })
        .collect()
}

fn partial_patterns(s: &[u8]) -> usize {
    // occurrences of "DL" are a cheap proxy for partial matches
    s.windows(2).filter(|w| w == b"DL").count()
}

fn check_search(ctx: &mut Ctx, s: &[u8], class: &'static str) {
    // short inputs are searched in an allocation of exactly their size (red zones behind the last byte)
    let exact: Option<Box<[u8]>> = if s.len() <= 4096 { Some(s.to_vec().into_boxed_slice()) } else { None };
    let s: &[u8] = exact.as_deref().unwrap_or(s);
    ctx.eval();
    let exp = find_pattern(s);
    let got = guarded(|| {
        forward_to_next_storage_header(s).map(|(k, rest)| (k, super::ptr_off(s, rest), rest.len()))
    });
    let detail = |got: String| {
        J::obj()
            .set("input_hex", hex_trunc(s, 96))
            .set("input_len", s.len())
            .set("expected_first_offset", exp)
            .set("got", got)
    };
    let pp = partial_patterns(s);
    let len_bucket = 64 - (s.len() as u64).leading_zeros();
    ctx.shape(
        &(class, len_bucket, exp.map(|e| 64 - (e as u64).leading_zeros()), exp.map(|e| e % 64), pp.min(6)),
        pp > 0 || exp.is_some(),
    );
    match got {
        Err(p) => ctx.panic_violation("search.no_panic", &p, || detail("panic".into())),
        Ok(g) => match (exp, g) {
            (None, None) => ctx.obs("search.absent_ok"),
            (Some(i), Some((k, off, l))) if k == i as u64 && off == Some(i) && l == s.len() - i => {
                ctx.obs("search.found_ok");
                if i > 0 {
                    ctx.obs("search.found_after_junk_ok");
                }
            }
            (None, Some(g)) => ctx.violation("search.absent_but_reported", class, || detail(format!("{:?}", g))),
            (Some(_), None) => ctx.violation("search.present_but_missed", class, || detail("None".into())),
            (Some(_), Some(g)) => ctx.violation("search.wrong_offset", class, || detail(format!("{:?}", g))),
        },
    }
}

impl Monitor for M {
    fn case(&mut self, ctx: &mut Ctx) {
        let light = ctx.light();
        if super::huge::wanted(ctx) {
            super::huge::stored_message_behind_4gib(ctx, false);
        }
        let ec = exh_chunks(ctx.tier, light);
        let i = ctx.index;
        if i < ec {
            ctx.obs("chunks.exhaustive");
            let total = n_strings(max_len(ctx.tier, light));
            for code in i * CHUNK..((i + 1) * CHUNK).min(total) {
                let s = nth_string(code);
                check_search(ctx, &s, "exhaustive");
            }
            return;
        }
        match (i - ec) % 4 {
            0 => {
                ctx.obs("chunks.random_alphabet");
                for _ in 0..if light { 2 } else { 24 } {
                    let n = ctx.rng.size(24, if light { 80 } else { 4096 });
                    let s: Vec<u8> = (0..n).map(|_| *ctx.rng.pick(&ALPHA)).collect();
                    check_search(ctx, &s, "random_alphabet");
                }
            }
            1 => {
                ctx.obs("chunks.planted_long");
                // long buffers exercising the vectorised memmem: pattern at every alignment,
                // at the very end, straddling 16/32/64-byte boundaries, or absent
                let max = if light { 300 } else { 262_144 };
                let n = match ctx.rng.below(4) {
                    0 => ctx.rng.range(64, 600) as usize,
                    1 => ctx.rng.range(600, 9000).min(max as u64) as usize,
                    _ => ctx.rng.range(64, max as u64) as usize,
                };
                let fill = match ctx.rng.below(4) {
                    0 => vec![b'D'],
                    1 => vec![b'D', b'L', b'T'],
                    2 => vec![0u8],
                    _ => vec![b'D', b'L', b'T', 0x02, 0x44, 0x4C],
                };
                let mut s: Vec<u8> = (0..n).map(|k| fill[k % fill.len()]).collect();
                if ctx.rng.chance(1, 3) {
                    let noise = ctx.rng.bytes(n);
                    for (a, b) in s.iter_mut().zip(noise) {
                        if b < 16 {
                            *a = b;
                        }
                    }
                    // noise may create the pattern by accident; the naive search decides anyway
                }
                let plant = |s: &mut Vec<u8>, at: usize| {
                    if at + 4 <= s.len() {
                        s[at..at + 4].copy_from_slice(&[0x44, 0x4C, 0x54, 0x01]);
                    }
                };
                match ctx.rng.below(6) {
                    0 => {} // absent (unless the filler produced it, which it cannot: no 01)
                    1 => plant(&mut s, n - 4),
                    2 => {
                        let b = *ctx.rng.pick(&[16usize, 32, 64, 128, 4096]);
                        let k = ctx.rng.range(1, 3) as usize;
                        let blocks = (n / b).max(1);
                        let at = (ctx.rng.usize_below(blocks) * b).saturating_sub(k);
                        plant(&mut s, at);
                    }
                    3 => {
                        // two occurrences: the first one must win
                        let a = ctx.rng.usize_below(n - 3);
                        let b2 = ctx.rng.usize_below(n - 3);
                        plant(&mut s, a);
                        plant(&mut s, b2);
                    }
                    _ => {
                        let at = ctx.rng.usize_below(n - 3);
                        plant(&mut s, at);
                    }
                }
                // every start alignment 0..63 relative to the allocation
                let skip = ctx.rng.usize_below(64.min(s.len()));
                check_search(ctx, &s[skip..], "planted_long");
                check_search(ctx, &s, "planted_long");
            }
            2 => {
                ctx.obs("chunks.junk_plus_message");
                let mut o = if light { GenOpts::small() } else { GenOpts::normal() };
                o.force_storage = Some(true);
                o.boundaries = false;
                let m = gen_msg(&mut ctx.rng, &o);
                let e = ref_encode(&m);
                let suffix_n = ctx.rng.size(6, 40);
                let suffix = ctx.rng.bytes(suffix_n);
                let mut plain = e.bytes.clone();
                plain.extend_from_slice(&suffix);
                let base = guarded(|| dlt_message(&plain, None, true).map(|(r, pm)| (r.len(), pm)));
                let base = match base {
                    Ok(Ok((rl, ParsedMessage::Item(pm)))) => (rl, pm),
                    other => {
                        // the junk-free parse is C01's business; nothing to compare against here
                        ctx.obs("parse.baseline_not_a_message");
                        let _ = other;
                        return;
                    }
                };
                // junk lengths 0..=40 exhaustively for this message, then a few long ones
                let mut lens: Vec<usize> = if light { vec![0, 1, 3, 17] } else { (0..=40).collect() };
                if !light {
                    lens.push(ctx.rng.range(41, 4000) as usize);
                    if ctx.rng.chance(1, 8) {
                        lens.push(ctx.rng.range(60_000, 72_000) as usize);
                    }
                    // megabytes of regular junk (one byte repeated, near-miss patterns, long runs): linear code skips
                    // them in milliseconds, anything super-linear in the junk length runs into the progress watchdog
                    if ctx.rng.chance(1, 40) {
                        lens.push(ctx.rng.range(1 << 20, 3 << 20) as usize);
                        ctx.obs("parse.megabytes_of_regular_junk");
                    }
                    // the pattern 10-18 MiB into the buffer, and right at the 10 MiB mark (the size of the readers'
                    // default buffer): a search that gives up after some distance shows here
                    if ctx.rng.chance(1, 160) {
                        let ten = 10usize << 20;
                        lens.push(match ctx.rng.below(4) {
                            0 => ten - ctx.rng.range(0, 4) as usize,
                            1 => ten + ctx.rng.range(0, 40) as usize,
                            _ => ctx.rng.range(ten as u64, 18 << 20) as usize,
                        });
                        ctx.obs("parse.pattern_beyond_10MiB");
                    }
                }
                for jl in lens {
                    let mut j = if jl >= 1 << 20 { crate::mutate::gen_regular_junk(&mut ctx.rng, jl) } else { gen_junk(&mut ctx.rng, jl) };
                    // junk ending in D, DL, DLT
                    let tail_k = ctx.rng.below(4) as usize;
                    if jl >= tail_k {
                        j[jl - tail_k..].copy_from_slice(&[0x44, 0x4C, 0x54][..tail_k]);
                    }
                    let mut buf = j.clone();
                    buf.extend_from_slice(&plain);
                    if find_pattern(&buf) != Some(jl) {
                        // junk + message start formed an earlier occurrence: outside the quantifier
                        ctx.obs("parse.skipped_accidental_pattern");
                        continue;
                    }
                    ctx.eval();
                    let got = guarded(|| dlt_message(&buf, None, true).map(|(r, pm)| (super::ptr_off(&buf, r), r.len(), pm)));
                    let detail = |got: String| {
                        J::obj()
                            .set("junk_hex", hex_trunc(&j, 64))
                            .set("junk_len", jl)
                            .set("message", show_msg(&m))
                            .set("message_hex", hex_trunc(&e.bytes, 96))
                            .set("got", got)
                    };
                    ctx.shape(&("junkmsg", jl.min(41), tail_k, crate::refcodec::payload_kind(&m.payload)), jl > 0);
                    // the same with a filter that drops / keeps the message: junk in front changes neither the
                    // verdict nor where the remainder starts
                    if jl % 3 == 1 {
                        for (fname, f) in [("drop", &self.drop), ("keep", &self.keep)] {
                            ctx.eval();
                            let a = guarded(|| dlt_message(&buf, Some(f), true).map(|(r, pm)| (r.len(), format!("{:?}", std::mem::discriminant(&pm)), matches!(pm, ParsedMessage::FilteredOut(_)))));
                            let b = guarded(|| dlt_message(&plain, Some(f), true).map(|(r, pm)| (r.len(), format!("{:?}", std::mem::discriminant(&pm)), matches!(pm, ParsedMessage::FilteredOut(_)))));
                            match (a, b) {
                                (Err(p), _) | (_, Err(p)) => ctx.panic_violation("parse.no_panic", &p, || detail("panic with a filter".into())),
                                (Ok(Ok(x)), Ok(Ok(y))) if x == y => ctx.obs("parse.junk_skipped_with_filter_ok"),
                                (Ok(x), Ok(y)) => {
                                    if x.is_ok() != y.is_ok() || x.is_ok() {
                                        ctx.violation("parse.same_result_with_filter", fname, || detail(format!("with junk: {:?}; without: {:?}", x.as_ref().map_err(|e| format!("{:?}", e)), y.as_ref().map_err(|e| format!("{:?}", e)))));
                                    }
                                }
                            }
                        }
                    }
                    match got {
                        Err(p) => ctx.panic_violation("parse.no_panic", &p, || detail("panic".into())),
                        Ok(Ok((off, rl, ParsedMessage::Item(pm)))) => {
                            if rl != base.0 || off != Some(buf.len() - base.0) {
                                ctx.violation("parse.same_remainder", "junk", || {
                                    detail(format!("rest_len {} (offset {:?}), junk-free rest_len {}", rl, off, base.0))
                                });
                            } else if let Some(d) = diff_msg(&pm, &base.1, false) {
                                ctx.violation("parse.same_message", &d, || detail(show_msg(&pm)));
                            } else {
                                ctx.obs("parse.junk_skipped_ok");
                            }
                        }
                        Ok(other) => ctx.violation("parse.same_message", "not_a_message", || {
                            detail(match other {
                                Ok((_, _, pm)) => format!("{:?}", pm),
                                Err(e) => format!("{:?}", e),
                            })
                        }),
                    }
                }
                // junk ++ a message cut short: the bytes in front of the pattern are skipped and what follows is
                // reported exactly like the same cut message without junk (incomplete); every buffer is an
                // allocation of exactly its size so that the sanitizer engines see any read behind its end
                let mut cuts: Vec<usize> = (0..=24usize.min(e.bytes.len().saturating_sub(1))).collect();
                for _ in 0..3 {
                    cuts.push(ctx.rng.usize_below(e.bytes.len()));
                }
                for c in cuts {
                    let jl = ctx.rng.size(4, 24);
                    let j = gen_junk(&mut ctx.rng, jl);
                    let mut with_junk = j.clone();
                    with_junk.extend_from_slice(&e.bytes[..c]);
                    if find_pattern(&with_junk).map_or(false, |p| p != jl) {
                        continue;
                    }
                    let with_junk: Box<[u8]> = with_junk.into_boxed_slice();
                    let alone: Box<[u8]> = e.bytes[..c].to_vec().into_boxed_slice();
                    ctx.eval();
                    let class = |r: &Result<(&[u8], ParsedMessage), DltParseError>| match r {
                        Ok((_, ParsedMessage::Item(_))) => "item",
                        Ok(_) => "other",
                        Err(DltParseError::IncompleteParse { .. }) => "incomplete",
                        Err(_) => "error",
                    };
                    let a = guarded(|| class(&dlt_message(&with_junk, None, true)));
                    let b = guarded(|| class(&dlt_message(&alone, None, true)));
                    let detail = |got: String| J::obj().set("junk_hex", hex_trunc(&j, 48)).set("message_hex", hex_trunc(&e.bytes, 64)).set("cut", c).set("got", got);
                    match (a, b) {
                        (Err(p), _) | (_, Err(p)) => ctx.panic_violation("parse.no_panic", &p, || detail("panic on a cut message".into())),
                        (Ok(x), Ok(y)) if c == 0 || x == y => {
                            ctx.obs("parse.junk_plus_cut_message_ok");
                            let _ = (x, y);
                        }
                        (Ok(x), Ok(y)) => ctx.violation("parse.same_outcome_for_cut_message", y, || detail(format!("with junk: {}, without: {}", x, y))),
                    }
                }
                ctx.sample(|| J::obj().set("kind", "junk++message").set("message_hex", hex_trunc(&e.bytes, 64)));
            }
            _ => {
                ctx.obs("chunks.stream_recovery");
                // mostly short streams; 1 in 12 is a buffer well beyond 64 KiB (hundreds of messages)
                let long = !light && ctx.rng.chance(1, 12);
                let k = if long { ctx.rng.range(600, 1800) } else { ctx.rng.range(1, if light { 3 } else { 12 }) } as usize;
                if long {
                    ctx.obs("stream.longer_than_64KiB");
                }
                let mut o = GenOpts::small();
                o.force_storage = Some(true);
                let mut buf: Vec<u8> = vec![];
                let mut msgs = vec![];
                let mut starts = vec![];
                let mut lens = vec![];
                for _ in 0..k {
                    let jl = ctx.rng.size(5, 60);
                    let j = gen_junk(&mut ctx.rng, jl);
                    buf.extend_from_slice(&j);
                    let mut m = gen_msg(&mut ctx.rng, &o);
                    let e = ref_encode(&m);
                    let mut bytes = e.bytes.clone();
                    // 1 in 5 messages carries an id as real ECUs write them: bytes that are not UTF-8, or an
                    // early NUL, in a 4-byte id field. The recovered message has the clean prefix (C19 rule).
                    if ctx.rng.chance(1, 5) {
                        let raw: [u8; 4] = *ctx.rng.pick(&[[b'E', b'C', 0xDC, b'1'], [b'A', 0xFF, 0, 0], [0, b'B', b'C', b'D'], [0xE4, b'B', b'C', 0], [b'A', b'B', 0xC3, 0], [b'A', 0, b'C', b'D'], [0xF0, 0x9F, 0x98, 0x80]]);
                        let which = *ctx.rng.pick(&["storage.ecu", "std.ecu", "ext.apid", "ext.ctid"]);
                        if let Some(f) = e.find(which) {
                            bytes[f.start..f.end].copy_from_slice(&raw);
                            let clean = String::from_utf8_lossy(crate::refcodec::field_value(&raw)).into_owned();
                            match which {
                                "storage.ecu" => m.storage_header.as_mut().unwrap().ecu_id = clean,
                                "std.ecu" => m.header.ecu_id = Some(clean),
                                "ext.apid" => m.extended_header.as_mut().unwrap().application_id = clean,
                                _ => m.extended_header.as_mut().unwrap().context_id = clean,
                            }
                            ctx.obs("stream.message_with_dialect_id");
                        }
                    }
                    starts.push(buf.len());
                    lens.push(bytes.len());
                    buf.extend_from_slice(&bytes);
                    msgs.push(m);
                }
                let jl = ctx.rng.size(5, 30);
                let j = gen_junk(&mut ctx.rng, jl);
                buf.extend_from_slice(&j);
                // the first occurrence after each message must be the next message's own pattern
                let mut ok_layout = true;
                let mut pos = 0usize;
                for (n, &st) in starts.iter().enumerate() {
                    if find_pattern(&buf[pos..]).map(|p| p + pos) != Some(st) {
                        ok_layout = false;
                    }
                    pos = st + lens[n];
                }
                if !ok_layout {
                    ctx.obs("stream.skipped_accidental_pattern");
                    return;
                }
                ctx.eval();
                ctx.shape(&("stream", k, buf.len() / 64), true);
                let res = guarded(|| {
                    let mut out = vec![];
                    let mut rest: &[u8] = &buf;
                    for _ in 0..k + 2 {
                        match dlt_message(rest, None, true) {
                            Ok((r, ParsedMessage::Item(pm))) => {
                                out.push(pm);
                                rest = r;
                            }
                            Ok((r, _)) => {
                                rest = r;
                            }
                            Err(DltParseError::IncompleteParse { .. }) => break,
                            Err(_) => break,
                        }
                    }
                    out
                });
                let detail = |got: String| J::obj().set("stream_hex", hex_trunc(&buf, 200)).set("messages", k).set("got", got);
                match res {
                    Err(p) => ctx.panic_violation("stream.no_panic", &p, || detail("panic".into())),
                    Ok(out) => {
                        if out.len() != k {
                            ctx.violation("stream.all_recovered", "count", || detail(format!("{} messages", out.len())));
                        } else if let Some((n, d)) = out
                            .iter()
                            .zip(&msgs)
                            .enumerate()
                            .find_map(|(n, (a, b))| diff_msg(a, b, false).map(|d| (n, d)))
                        {
                            ctx.violation("stream.in_order_and_equal", &d, || detail(format!("message {} differs: {}", n, show_msg(&out[n]))));
                        } else {
                            ctx.obs("stream.recovered_ok");
                        }
                    }
                }
            }
        }
    }

    fn describe(&self, ctx: &Ctx) -> J {
        let light = ctx.light();
        let ml = max_len(ctx.tier, light);
        super::describe(
            &format!("search: exhaustive over all {} strings of length <= {} over {{D,L,T,01,x}}; random strings over that alphabet up to 4 KiB; buffers up to 256 KiB filled with partial patterns with the full pattern planted at the end / straddling 16,32,64,128,4096-byte block boundaries / twice / absent, searched from every start alignment 0..63. parse: junk lengths 0..=40 exhaustively per generated storage-header message (every third length also under a dropping and a keeping filter) (junk ending in '', D, DL, DLT; pattern-free by construction and re-checked with the naive search) plus junk up to 72000 bytes; junk ++ the same message cut at every offset 0..24 and at random offsets (same outcome class as the cut message alone; exact-size allocations). stream: 1-12 messages (1 in 12 streams: 600-1800 messages, a buffer well beyond 64 KiB) with junk between, 1 in 5 messages with a dialect id field (non-UTF-8 bytes or an early NUL; the recovered id is the clean prefix), recovered by repeated parsing. distinct = (class, length bucket, first-occurrence bucket and alignment mod 64, partial-pattern count) resp. (junk length, junk tail, payload kind); non-trivial = input contains a partial or full pattern / junk is non-empty", n_strings(ml), ml),
            &["the naive 4-byte window scan is the reference for 'first occurrence'", "junk/message combinations in which an earlier pattern occurrence forms by accident are outside the quantifier and skipped (counted)"],
            &[("search.found_after_junk_ok", super::scaled(ctx, 5000)), ("search.absent_ok", super::scaled(ctx, 5000)), ("parse.junk_skipped_ok", super::scaled(ctx, 5000)), ("stream.recovered_ok", super::scaled(ctx, 300))],
        )
        .set("fixed_chunks", exh_chunks(ctx.tier, light))
        .set("exhaustive_space", format!("{} strings over a 5-symbol alphabet", n_strings(ml)))
    }
}
