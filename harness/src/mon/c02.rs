//! C02 — writer and parser agree with an independent reference codec of the DLT format.
//!
//! encode: Message::as_bytes and the per-part writers (storage / standard / extended header,
//! type info, argument) must equal the reference encoder byte for byte.
//! decode: for any byte string, the crate's verdict class (message + fields + consumed length,
//! incomplete, reject) must be a member of the reference verdict set (refcodec rules 1-7).

use crate::ctx::{guarded, Ctx, Monitor};
use crate::gen_msg::{gen_msg, gen_systematic, wellformed, GenOpts, SYS_PERIOD};
use crate::inputs::gen_input;
use crate::json::{hex_trunc, J};
use crate::refcodec::{self, diff_msg, kind_name, payload_kind, ref_decode, ref_encode, show_msg, tyinfo_word, Verdict};
use dlt_core::dlt::*;
use dlt_core::parse::{dlt_message, DltParseError, ParsedMessage};

#[derive(Default)]
pub struct M {}

thread_local! {
    static HISTORY_FAILURE: std::cell::RefCell<Option<(&'static str, Vec<u8>, Vec<u8>)>> = const { std::cell::RefCell::new(None) };
    static INTERLEAVED: std::cell::Cell<u32> = const { std::cell::Cell::new(0) };
}
fn ctx_obs_interleaved() {
    INTERLEAVED.with(|c| c.set(c.get() + 1));
}

fn first_diff(a: &[u8], b: &[u8]) -> usize {
    a.iter().zip(b).position(|(x, y)| x != y).unwrap_or(a.len().min(b.len()))
}

fn encode_case(ctx: &mut Ctx) {
    let light = ctx.light();
    let m = if ctx.index % 8 == 1 {
        gen_systematic(&mut ctx.rng, (ctx.index / 8) % SYS_PERIOD).0
    } else {
        let mut o = if light { GenOpts::small() } else { GenOpts::normal() };
        o.typical_total = 200;
        gen_msg(&mut ctx.rng, &o)
    };
    if let Err(why) = wellformed(&m) {
        ctx.harness_error(format!("ill-formed generated message: {}", why));
        return;
    }
    let e = ref_encode(&m);
    let be = m.header.endianness == Endianness::Big;
    let pk = payload_kind(&m.payload);
    ctx.eval();
    ctx.shape(
        &("enc", m.storage_header.is_some(), refcodec::htyp_of(&m.header), m.extended_header.as_ref().map(|x| refcodec::msin_bits(&x.message_type)), pk),
        true,
    );
    match guarded(|| m.as_bytes()) {
        Err(p) => ctx.panic_violation("encode.no_panic", &p, || J::obj().set("message", show_msg(&m))),
        Ok(b) => {
            if b != e.bytes {
                let at = first_diff(&b, &e.bytes);
                let label = e.label_at(at.min(e.bytes.len().saturating_sub(1)));
                ctx.violation("encode.message_bytes", &format!("{}:{}:{}", pk, if be { "be" } else { "le" }, label), || {
                    J::obj()
                        .set("message", show_msg(&m))
                        .set("crate_hex", hex_trunc(&b, 200))
                        .set("reference_hex", hex_trunc(&e.bytes, 200))
                        .set("first_difference_at", at)
                        .set("field", label)
                        .set("crate_len", b.len())
                        .set("reference_len", e.bytes.len())
                });
            } else {
                ctx.obs("encode.message_ok");
            }
        }
    }
    // the same message produced by the crate's constructor: Message::new computes the length,
    // the verbose flag and the argument count itself, and what it builds must serialise to the
    // layout's bytes as well
    if let Some(x) = &m.extended_header {
        let mut want_msg = m.clone();
        if let (Some(wx), PayloadContent::NonVerbose(..) | PayloadContent::ControlMsg(..)) = (want_msg.extended_header.as_mut(), &m.payload) {
            wx.argument_count = 0; // NOAR carries no information for these payload kinds; the constructor writes 0
        }
        let want = ref_encode(&want_msg);
        let conf = MessageConfig {
            version: m.header.version,
            counter: m.header.message_counter,
            endianness: m.header.endianness,
            ecu_id: m.header.ecu_id.clone(),
            session_id: m.header.session_id,
            timestamp: m.header.timestamp,
            payload: m.payload.clone(),
            extended_header_info: Some(ExtendedHeaderConfig {
                message_type: x.message_type.clone(),
                app_id: x.application_id.clone(),
                context_id: x.context_id.clone(),
            }),
        };
        let sh = m.storage_header.clone();
        ctx.eval();
        // every other case builds a same-shaped twin between constructing the message and serialising
        // it (and serialises the twin afterwards): what each object writes is its own content, whatever
        // was built or written in between
        let interleave = ctx.index % 16 >= 8;
        let tw = crate::gen_msg::twin(&m);
        let tw_conf = tw.extended_header.as_ref().map(|tx| MessageConfig {
            version: tw.header.version,
            counter: tw.header.message_counter,
            endianness: tw.header.endianness,
            ecu_id: tw.header.ecu_id.clone(),
            session_id: tw.header.session_id,
            timestamp: tw.header.timestamp,
            payload: tw.payload.clone(),
            extended_header_info: Some(ExtendedHeaderConfig {
                message_type: tx.message_type.clone(),
                app_id: tx.application_id.clone(),
                context_id: tx.context_id.clone(),
            }),
        });
        let tw_sh = tw.storage_header.clone();
        let mut tw_want_msg = tw.clone();
        if let (Some(wx), PayloadContent::NonVerbose(..) | PayloadContent::ControlMsg(..)) = (tw_want_msg.extended_header.as_mut(), &tw.payload) {
            wx.argument_count = 0;
        }
        let tw_want = ref_encode(&tw_want_msg);
        let hand_built = m.clone();
        match guarded(move || {
            let a = Message::new(conf, sh);
            if interleave {
                if let Some(tc) = tw_conf {
                    let b = Message::new(tc, tw_sh);
                    let first = a.as_bytes();
                    let second = b.as_bytes();
                    // a message that never went through the constructor, written after the others
                    let third = hand_built.as_bytes();
                    return (first, Some(second), Some(third));
                }
            }
            (a.as_bytes(), None, None)
        })
        .map(|(first, second, third)| {
            if let Some(sb) = &second {
                if *sb != tw_want.bytes {
                    return (first, Some(("twin built in between", sb.clone(), tw_want.bytes.clone())));
                }
            }
            if let Some(tb) = &third {
                if *tb != e.bytes {
                    return (first, Some(("hand-built message written after two constructed ones", tb.clone(), e.bytes.clone())));
                }
            }
            if interleave {
                ctx_obs_interleaved();
            }
            (first, None)
        })
        .map(|(first, history_failure)| {
            if let Some((what, got, wantb)) = history_failure {
                HISTORY_FAILURE.with(|h| *h.borrow_mut() = Some((what, got, wantb)));
            }
            first
        }) {
            Err(p) => ctx.panic_violation("encode.no_panic", &p, || J::obj().set("message", show_msg(&m)).set("via", "Message::new")),
            Ok(b) if b == want.bytes => ctx.obs("encode.constructed_message_ok"),
            Ok(b) => {
                let at = first_diff(&b, &want.bytes);
                let label = want.label_at(at.min(want.bytes.len().saturating_sub(1)));
                ctx.violation("encode.constructed_message_bytes", &format!("{}:{}:{}", pk, if be { "be" } else { "le" }, label), || {
                    J::obj()
                        .set("message", show_msg(&m))
                        .set("via", "Message::new(MessageConfig{..}).as_bytes()")
                        .set("crate_hex", hex_trunc(&b, 200))
                        .set("reference_hex", hex_trunc(&want.bytes, 200))
                        .set("first_difference_at", at)
                        .set("field", label)
                })
            }
        }
    }
    if let Some((what, got, wantb)) = HISTORY_FAILURE.with(|h| h.borrow_mut().take()) {
        let at = first_diff(&got, &wantb);
        ctx.violation("encode.each_object_writes_its_own_content", pk, || {
            J::obj().set("history", what).set("message", show_msg(&m)).set("crate_hex", hex_trunc(&got, 200)).set("reference_hex", hex_trunc(&wantb, 200)).set("first_difference_at", at)
        });
    }
    if INTERLEAVED.with(|c| c.replace(0)) > 0 {
        ctx.obs("encode.interleaved_construction_ok");
    }
    // parts
    if let Some(sh) = &m.storage_header {
        ctx.eval();
        match guarded(|| sh.as_bytes()) {
            Ok(b) if b[..] == e.bytes[..16] => ctx.obs("encode.storage_header_ok"),
            Ok(b) => ctx.violation("encode.storage_header_bytes", e.label_at(first_diff(&b, &e.bytes[..16]).min(15)), || {
                J::obj().set("header", format!("{:?}", sh)).set("crate_hex", hex_trunc(&b, 32)).set("reference_hex", hex_trunc(&e.bytes[..16], 32))
            }),
            Err(p) => ctx.panic_violation("encode.no_panic", &p, || J::obj().set("header", format!("{:?}", sh))),
        }
    }
    {
        ctx.eval();
        let s = e.std_start;
        let std_end = s + refcodec::headers_len(refcodec::htyp_of(&m.header)) - if m.extended_header.is_some() { 10 } else { 0 };
        match guarded(|| m.header.as_bytes()) {
            Ok(b) if b[..] == e.bytes[s..std_end] => ctx.obs("encode.standard_header_ok"),
            Ok(b) => {
                let at = first_diff(&b, &e.bytes[s..std_end]);
                ctx.violation("encode.standard_header_bytes", e.label_at(s + at.min(std_end - s - 1)), || {
                    J::obj().set("header", format!("{:?}", m.header)).set("crate_hex", hex_trunc(&b, 32)).set("reference_hex", hex_trunc(&e.bytes[s..std_end], 32))
                })
            }
            Err(p) => ctx.panic_violation("encode.no_panic", &p, || J::obj().set("header", format!("{:?}", m.header))),
        }
        if let Some(x) = &m.extended_header {
            ctx.eval();
            match guarded(|| x.as_bytes()) {
                Ok(b) if b[..] == e.bytes[std_end..std_end + 10] => ctx.obs("encode.extended_header_ok"),
                Ok(b) => ctx.violation("encode.extended_header_bytes", e.label_at(std_end + first_diff(&b, &e.bytes[std_end..std_end + 10]).min(9)), || {
                    J::obj().set("header", format!("{:?}", x)).set("crate_hex", hex_trunc(&b, 32)).set("reference_hex", hex_trunc(&e.bytes[std_end..std_end + 10], 32))
                }),
                Err(p) => ctx.panic_violation("encode.no_panic", &p, || J::obj().set("header", format!("{:?}", x))),
            }
        }
    }
    if let PayloadContent::Verbose(args) = &m.payload {
        for (i, a) in args.iter().enumerate().take(6) {
            for abe in [false, true] {
                ctx.eval();
                let mut want = vec![];
                refcodec::encode_argument(&mut want, a, abe);
                let got = guarded(|| if abe { a.as_bytes::<byteorder::BigEndian>() } else { a.as_bytes::<byteorder::LittleEndian>() });
                match got {
                    Ok(b) if b == want => ctx.obs("encode.argument_ok"),
                    Ok(b) => ctx.violation("encode.argument_bytes", &format!("{}:{}", kind_name(&a.type_info.kind), if abe { "be" } else { "le" }), || {
                        J::obj().set("argument", crate::json::trunc(&format!("{:?}", a), 500)).set("index", i).set("crate_hex", hex_trunc(&b, 120)).set("reference_hex", hex_trunc(&want, 120))
                    }),
                    Err(p) => ctx.panic_violation("encode.no_panic", &p, || J::obj().set("argument", crate::json::trunc(&format!("{:?}", a), 500))),
                }
                ctx.eval();
                let w = tyinfo_word(&a.type_info);
                let want_ti = if abe { w.to_be_bytes() } else { w.to_le_bytes() };
                let got = guarded(|| if abe { a.type_info.as_bytes::<byteorder::BigEndian>() } else { a.type_info.as_bytes::<byteorder::LittleEndian>() });
                match got {
                    Ok(b) if b[..] == want_ti[..] => ctx.obs("encode.type_info_ok"),
                    Ok(b) => ctx.violation("encode.type_info_bytes", &format!("{}:{}", kind_name(&a.type_info.kind), if abe { "be" } else { "le" }), || {
                        J::obj().set("type_info", format!("{:?}", a.type_info)).set("crate_hex", hex_trunc(&b, 8)).set("reference_word", format!("{:#010x}", w))
                    }),
                    Err(p) => ctx.panic_violation("encode.no_panic", &p, || J::obj().set("type_info", format!("{:?}", a.type_info))),
                }
            }
        }
    }
}

fn verdict_name(v: &Verdict) -> &'static str {
    match v {
        Verdict::Msg(..) => "message",
        Verdict::Incomplete => "incomplete",
        Verdict::Reject => "reject",
    }
}

pub fn decode_check(ctx: &mut Ctx, bytes: &[u8], wsh: bool, class: &'static str, ops: &[&'static str]) {
    ctx.eval();
    let exp = ref_decode(bytes, wsh);
    let got = guarded(|| match dlt_message(bytes, None, wsh) {
        Ok((rest, ParsedMessage::Item(m))) => Verdict::Msg(Box::new(m), bytes.len() - rest.len()),
        Ok((_, _)) => Verdict::Reject,
        Err(DltParseError::IncompleteParse { .. }) => Verdict::Incomplete,
        Err(_) => Verdict::Reject,
    });
    let exp_names: Vec<&str> = exp.iter().map(verdict_name).collect();
    let detail = |got: String| {
        J::obj()
            .set("input_hex", hex_trunc(bytes, 240))
            .set("input_len", bytes.len())
            .set("with_storage_header", wsh)
            .set("class", class)
            .set("operators", ops.join("+"))
            .set(
                "reference",
                exp.iter()
                    .map(|v| match v {
                        Verdict::Msg(m, c) => format!("message consumed={} {}", c, show_msg(m)),
                        o => verdict_name(o).to_string(),
                    })
                    .collect::<Vec<_>>()
                    .join(" | "),
            )
            .set("got", got)
    };
    let (htyp, msin, w0) = {
        let s = if wsh { refcodec::find_pattern(bytes).map(|p| p + 16) } else { Some(0) };
        match s {
            Some(s) if bytes.len() > s => {
                let h = bytes[s];
                let hl = refcodec::headers_len(h);
                let msin = if h & 1 != 0 && bytes.len() >= s + hl { Some(bytes[s + hl - 10]) } else { None };
                let w0 = if bytes.len() >= s + hl + 2 { Some((bytes[s + hl], bytes[s + hl + 1])) } else { None };
                (Some(h), msin, w0)
            }
            _ => (None, None, None),
        }
    };
    let got_v = match got {
        Err(p) => {
            ctx.panic_violation("decode.no_panic", &p, || detail("panic".into()));
            return;
        }
        Ok(v) => v,
    };
    let nontrivial = matches!(exp[0], Verdict::Msg(..)) || class == "mutant" || class == "dialect";
    ctx.shape(&(class, wsh, htyp, msin, w0, exp_names[0], verdict_name(&got_v)), nontrivial);
    ctx.obs_dyn(format!("decode.{}.{}", class, verdict_name(&got_v)));
    let mut ok = false;
    let mut why = String::new();
    for v in &exp {
        match (v, &got_v) {
            (Verdict::Incomplete, Verdict::Incomplete) | (Verdict::Reject, Verdict::Reject) => ok = true,
            (Verdict::Msg(em, ec), Verdict::Msg(gm, gc)) => {
                if ec != gc {
                    why = format!("consumed:{}", if gc > ec { "more" } else { "less" });
                } else if let Some(d) = diff_msg(gm, em, true) {
                    why = format!("field:{}", d);
                } else {
                    ok = true;
                }
            }
            (e, g) => {
                if why.is_empty() {
                    why = format!("{}_instead_of_{}", verdict_name(g), verdict_name(e));
                }
            }
        }
        if ok {
            break;
        }
    }
    if ok {
        ctx.obs("decode.agree");
        if exp.len() > 1 {
            ctx.obs("decode.agree_ambiguous_overlap");
        }
    } else {
        let pk = match &exp[0] {
            Verdict::Msg(m, _) => payload_kind(&m.payload),
            _ => match &got_v {
                Verdict::Msg(m, _) => payload_kind(&m.payload),
                _ => "none",
            },
        };
        ctx.violation("decode.verdict", &format!("{}:{}", pk, why), || {
            detail(match &got_v {
                Verdict::Msg(m, c) => format!("message consumed={} {}", c, show_msg(m)),
                o => verdict_name(o).to_string(),
            })
        });
    }
}

impl Monitor for M {
    fn case(&mut self, ctx: &mut Ctx) {
        let light = ctx.light();
        if super::huge::wanted(ctx) {
            // "for every byte string whatsoever": one of more than 4 GiB per run
            super::huge::message_at_start_of_4gib_slice(ctx);
        }
        if ctx.index % 4 == 1 {
            encode_case(ctx);
            return;
        }
        // decode
        let sys = if ctx.index % 16 == 2 { Some((ctx.index / 16) % SYS_PERIOD) } else { None };
        let inp = gen_input(&mut ctx.rng, None, light, sys);
        ctx.mark(1);
        decode_check(ctx, &inp.bytes, inp.wsh, inp.class, &inp.ops);
        if ctx.rng.chance(1, 4) {
            // the same bytes in the other storage mode
            ctx.mark(2);
            decode_check(ctx, &inp.bytes, !inp.wsh, inp.class, &inp.ops);
        }
        if inp.wsh && ctx.rng.chance(1, 4) {
            // junk in front of the pattern
            let n = ctx.rng.size(4, 30);
            let mut b = crate::mutate::gen_junk(&mut ctx.rng, n);
            b.extend_from_slice(&inp.bytes);
            ctx.mark(3);
            decode_check(ctx, &b, true, inp.class, &inp.ops);
        }
        if inp.class == "canonical" && inp.bytes.len() <= 160 && ctx.rng.chance(1, 8) {
            // every truncation offset of a small canonical message
            if let Some(e) = &inp.enc {
                for c in 0..e.bytes.len() {
                    decode_check(ctx, &e.bytes[..c], inp.wsh, "truncated", &[]);
                }
                ctx.obs("decode.all_cuts_of_one_message");
            }
        }
        let b = &inp.bytes;
        ctx.sample(|| J::obj().set("class", inp.class).set("operators", inp.ops.join("+")).set("input_hex", hex_trunc(b, 96)).set("with_storage_header", inp.wsh));
    }

    fn describe(&self, ctx: &Ctx) -> J {
        super::describe(
            "1/4 encode cases: well-formed messages (random + systematic layer) serialised by the crate and compared byte-for-byte with the reference encoder, whole message, the same message built through Message::new(MessageConfig) (the constructor computes length, verbose flag and argument count itself; every other case constructs a same-shaped twin in between and serialises message, twin and the hand-built original in that order: each object must write its own content), and per part (storage/standard/extended header, each of the first 6 arguments and their type-info words in both byte orders). 3/4 decode cases: input classes canonical (reference-encoded, never via the crate's writer) 20 %, dialect (reserved/struct type-info bits, TYLE on bool/string/raw, SCOD on any kind, ids with embedded NUL / no padding, missing or early terminators, FIXP on non-integer kinds, any version) 15 %, structure-aware mutants (16 operators on length fields, counts, type-info words, prefixes, terminators, UTF-8, byte order flag, argument dup/drop, truncation, junk, tails, pattern planted) 35 %, truncations 10 %, 0xFFFF length-prefix attacks with 66 KiB tails 5 %, arbitrary bytes 5 %, header-shaped random 10 %; 1/4 also parsed in the other storage mode, storage inputs 1/4 also with junk in front, small canonical messages 1/8 also at every cut. distinct = (class, storage mode, HTYP, MSIN, first payload bytes, reference verdict, crate verdict); non-trivial = reference verdict is a message or the input is a mutant/dialect variant of a valid message",
            &[
                "rule 4: where the buffer is short AND the declared length is visibly smaller than the headers, both 'incomplete' and 'reject' are accepted",
                "type-info comparison modulo the string-coding bits of non-string kinds; all other fields exact, floats by bit pattern",
                "network-trace payload = the data of the raw arguments, in order (non-raw arguments dropped), as the crate represents it",
                "bytes left over inside the declared payload after the NOAR-th argument are ignored",
                "dialect accepted by the reference: any TYLE on bool/string/raw, bits 14 and 18-31 set, FIXP on non-integer kinds ignored, ids with embedded/missing NUL, any version",
            ],
            &[("encode.message_ok", super::scaled(ctx, 50000)), ("encode.constructed_message_ok", super::scaled(ctx, 20000)), ("decode.agree", super::scaled(ctx, 200000)), ("decode.mutant.message", super::scaled(ctx, 5000)), ("decode.mutant.reject", super::scaled(ctx, 5000)), ("decode.dialect.message", super::scaled(ctx, 5000)), ("decode.truncated.incomplete", super::scaled(ctx, 5000))],
        )
    }
}
