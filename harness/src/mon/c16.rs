//! C16 — re-serialising any parsed message is stable: it parses back to the same message.
//!
//! For every input b on which dlt_message returns Item(m): b2 = m.as_bytes(); if
//! len(b2) == m.byte_len() + 16*[storage] (the precondition), then dlt_message(b2) must be
//! (empty remainder, Item(m2)) with m2 bit-exactly equal to m and m2.as_bytes() == b2.

use crate::ctx::{guarded, Ctx, Monitor};
use crate::inputs::gen_input;
use crate::json::{hex_trunc, J};
use crate::refcodec::{diff_msg, payload_kind, show_msg};
use dlt_core::dlt::*;
use dlt_core::parse::{dlt_message, ParsedMessage};

#[derive(Default)]
pub struct M {}

pub fn check_input(ctx: &mut Ctx, b: &[u8], wsh: bool, class: &'static str, ops: &[&'static str]) {
    ctx.eval();
    let m = match guarded(|| dlt_message(b, None, wsh)) {
        Ok(Ok((_, ParsedMessage::Item(m)))) => m,
        Ok(_) => {
            ctx.obs("input.no_message");
            return;
        }
        Err(_) => {
            // a crash on arbitrary input is C03's subject
            ctx.obs("input.parser_panicked");
            return;
        }
    };
    ctx.obs_dyn(format!("input.message.{}", class));
    let pk = payload_kind(&m.payload);
    let be = m.header.endianness == Endianness::Big;
    let detail = |what: String| {
        J::obj()
            .set("input_hex", hex_trunc(b, 240))
            .set("input_len", b.len())
            .set("with_storage_header", wsh)
            .set("class", class)
            .set("operators", ops.join("+"))
            .set("parsed", show_msg(&m))
            .set("what", what)
    };
    let (b2, decl) = match guarded(|| (m.as_bytes(), m.byte_len())) {
        Ok(x) => x,
        Err(_) => {
            ctx.obs("reserialise.panicked"); // C03
            return;
        }
    };
    let storage = m.storage_header.is_some();
    let pre = b2.len() == decl as usize + if storage { 16 } else { 0 };
    ctx.shape(&(class, pk, be, pre, ops.first().copied().unwrap_or("-"), m.extended_header.as_ref().map(|x| crate::refcodec::msin_bits(&x.message_type))), true);
    if !pre {
        ctx.obs("precondition.not_met");
        return;
    }
    ctx.obs("precondition.held");
    if class != "canonical" {
        ctx.obs("precondition.held_noncanonical");
    }
    // history: between the first parse and the re-parse, half of the cases parse something else on the
    // same thread — the same bytes flagged with the other byte order (identical raw fields, read the
    // other way round) and a dialect cousin of the input. A parse is a function of its input alone.
    if b.len() % 2 == 0 {
        let other = crate::gen_msg::other_byte_order(b, wsh);
        let _ = guarded(|| dlt_message(&other, None, wsh).map(|(r, _)| r.len()));
        let other2 = crate::gen_msg::other_byte_order(&b2, storage);
        let _ = guarded(|| dlt_message(&other2, None, storage).map(|(r, _)| r.len()));
        ctx.obs("history.other_byte_order_parsed_in_between");
    }
    let res = guarded(|| dlt_message(&b2, None, storage).map(|(r, pm)| (r.len(), pm)));
    let discr = format!("{}:{}", pk, if be { "be" } else { "le" });
    match res {
        Err(p) => ctx.panic_violation("reparse.no_panic", &p, || detail(format!("re-serialised: {}", hex_trunc(&b2, 200)))),
        Ok(Ok((rl, ParsedMessage::Item(m2)))) => {
            if let Some(d) = diff_msg(&m2, &m, false) {
                ctx.violation("reparse.identical_message", &format!("{}:{}", discr, d), || {
                    detail(format!("re-serialised {} parses to {}", hex_trunc(&b2, 200), show_msg(&m2)))
                });
            } else if rl != 0 {
                ctx.violation("reparse.nothing_left_over", &discr, || detail(format!("{} bytes left over", rl)));
            } else {
                match guarded(|| m2.as_bytes()) {
                    Ok(b3) if b3 == b2 => {
                        ctx.obs("stable.ok");
                        ctx.obs_dyn(format!("stable.ok.{}", pk));
                    }
                    Ok(b3) => ctx.violation("reserialise.same_bytes", &discr, || detail(format!("first {} then {}", hex_trunc(&b2, 120), hex_trunc(&b3, 120)))),
                    Err(p) => ctx.panic_violation("reparse.no_panic", &p, || detail("second serialisation".into())),
                }
            }
        }
        Ok(Ok((_, other))) => ctx.violation("reparse.yields_message", &format!("{}:{:?}", discr, other), || detail(format!("re-serialised: {}", hex_trunc(&b2, 200)))),
        Ok(Err(e)) => ctx.violation("reparse.yields_message", &format!("{}:err", discr), || detail(format!("re-serialised {} fails with {:?}", hex_trunc(&b2, 200), e))),
    }
}

impl Monitor for M {
    fn case(&mut self, ctx: &mut Ctx) {
        let light = ctx.light();
        // dialect and mutants are the interesting classes
        let class = match ctx.rng.below(20) {
            0..=2 => Some(0),
            3..=9 => Some(1),
            10..=16 => Some(2),
            17 => Some(4),
            18 => Some(6),
            _ => Some(5),
        };
        let sys = if ctx.index % 8 == 0 { Some(ctx.index / 8 % crate::gen_msg::SYS_PERIOD) } else { None };
        let inp = gen_input(&mut ctx.rng, class, light, sys);
        ctx.mark(1);
        check_input(ctx, &inp.bytes, inp.wsh, inp.class, &inp.ops);
        if ctx.rng.chance(1, 6) {
            ctx.mark(2);
            check_input(ctx, &inp.bytes, !inp.wsh, inp.class, &inp.ops);
        }
        let b = &inp.bytes;
        ctx.sample(|| J::obj().set("class", inp.class).set("operators", inp.ops.join("+")).set("input_hex", hex_trunc(b, 96)));
    }

    fn describe(&self, ctx: &Ctx) -> J {
        super::describe(
            "inputs of the C02 decode classes with emphasis on dialect (35 %: reserved codings, struct/reserved type-info bits, TYLE on unsized kinds, ids with embedded NUL, missing terminators, any version) and structure-aware mutants (35 %), plus canonical (15 %, incl. the systematic layer: all MSIN bytes, flag sets, kinds), long-field attacks, header-shaped random and arbitrary bytes; 1/6 also in the other storage mode. For every input that yields a message the precondition (re-serialised length == declared length) is evaluated and, when it holds, the re-serialisation is parsed and serialised again; in half of the cases the same bytes flagged with the other byte order are parsed in between (call history on one thread). distinct = (class, payload kind, byte order, precondition held, first operator, message type bits); non-trivial = the parser returned a message",
            &["crashes while parsing/serialising arbitrary input belong to C03 and are only counted here"],
            &[("precondition.held", super::scaled(ctx, 100000)), ("precondition.held_noncanonical", super::scaled(ctx, 10000)), ("stable.ok.networktrace", 1000), ("stable.ok.verbose", 1000), ("stable.ok.control", 1000), ("stable.ok.nonverbose", 1000)],
        )
    }
}
