//! Probes beyond 4 GiB: sizes and offsets that do not fit in 32 bits. One probe per run and property (a fixed
//! case index of the native engines), built so that it costs seconds and almost no resident memory:
//!
//! * a message at the START of a slice of 2^32 + r bytes (r smaller than the message): the buffer comes from
//!   `vec![0u8; n]` (zero pages mapped on demand) and only its first page is written;
//! * a stored message BEHIND 4 GiB of zeros: the search reads the zeros (read faults on untouched anonymous
//!   memory map the shared zero page), only the last page is written;
//! * more than 4 GiB through ONE reader: a cyclic source that serves the same 65535-byte message again and
//!   again without holding the stream in memory.
//!
//! The oracles are the properties' own: same message as the small twin and the remainder by address (C01, C02,
//! C04), the search offset (C06), the reader history (C07, C08).

use crate::ctx::{guarded, Ctx};
use crate::gen_msg::{gen_msg, GenOpts};
use crate::json::J;
use crate::refcodec::{diff_msg, ref_encode, show_msg};
use dlt_core::parse::{dlt_consume_msg, dlt_message, forward_to_next_storage_header, ParsedMessage};

pub const PROBE_INDEX: u64 = 13;

pub fn wanted(ctx: &Ctx) -> bool {
    ctx.index == PROBE_INDEX && !ctx.sanitized()
}

/// message ++ zeros, 2^32 + r bytes in total with r < LEN: everything behind the message is irrelevant
pub fn message_at_start_of_4gib_slice(ctx: &mut Ctx) {
    for storage in [false, true] {
        let mut o = GenOpts::small();
        o.force_storage = Some(storage);
        let m = gen_msg(&mut ctx.rng, &o);
        let e = ref_encode(&m);
        let msg_len = e.bytes.len();
        let r = ctx.rng.usize_below(msg_len.saturating_sub(if storage { 16 } else { 0 }).max(1));
        let total = (1usize << 32) + r;
        let mut huge = vec![0u8; total];
        huge[..msg_len].copy_from_slice(&e.bytes);
        let mut small = e.bytes.clone();
        small.extend_from_slice(&[0u8; 64]);
        ctx.eval();
        ctx.obs("huge.message_at_start_of_slice_over_4GiB");
        let a = guarded(|| dlt_message(&huge, None, storage).map(|(rest, pm)| (super::ptr_off(&huge, rest), rest.len(), pm)));
        let b = guarded(|| dlt_message(&small, None, storage).map(|(rest, pm)| (rest.len(), pm)));
        let detail = |got: String| J::obj().set("message", show_msg(&m)).set("buffer_len", total).set("with_storage_header", storage).set("got", got);
        match (a, b) {
            (Err(p), _) => ctx.panic_violation("huge.no_panic", &p, || detail("panic".into())),
            (_, Err(_)) => {}
            (Ok(Ok((off, rl, ParsedMessage::Item(x)))), Ok(Ok((_, ParsedMessage::Item(y))))) => {
                if let Some(d) = diff_msg(&x, &y, false) {
                    ctx.violation("huge.same_message_as_small_buffer", &d, || detail(show_msg(&x)));
                } else if off != Some(msg_len) || rl != total - msg_len {
                    ctx.violation("huge.remainder_starts_at_declared_end", "slice_over_4GiB", || detail(format!("remainder offset {:?} len {} (expected offset {} len {})", off, rl, msg_len, total - msg_len)));
                } else {
                    ctx.obs("huge.ok.message_at_start");
                }
            }
            (Ok(x), Ok(Ok((_, ParsedMessage::Item(_))))) => ctx.violation("huge.same_message_as_small_buffer", "not_a_message", || {
                detail(match x {
                    Ok((_, _, pm)) => format!("{:?}", pm),
                    Err(e) => format!("Err({:?})", e),
                })
            }),
            _ => {}
        }
        if storage {
            ctx.eval();
            match guarded(|| dlt_consume_msg(&huge).map(|(rest, n)| (super::ptr_off(&huge, rest), n))) {
                Err(p) => ctx.panic_violation("huge.no_panic", &p, || detail("panic in dlt_consume_msg".into())),
                Ok(Ok((off, Some(n)))) if off == Some(msg_len) && n as usize == msg_len => ctx.obs("huge.ok.consume_at_start"),
                Ok(other) => ctx.violation("huge.consume.remainder_starts_at_declared_end", "slice_over_4GiB", || detail(format!("{:?}", other.map(|(o, n)| (o, n)).map_err(|e| format!("{:?}", e))))),
            }
        }
    }
}

/// 4 GiB (- a few bytes .. + a few bytes) of zeros, then a stored message, then a short tail
pub fn stored_message_behind_4gib(ctx: &mut Ctx, search_only: bool) {
    let mut o = GenOpts::small();
    o.force_storage = Some(true);
    let m = gen_msg(&mut ctx.rng, &o);
    let e = ref_encode(&m);
    let junk = match ctx.rng.below(3) {
        0 => (1usize << 32) - 16,
        1 => (1usize << 32) - ctx.rng.range(0, 20) as usize,
        _ => (1usize << 32) + ctx.rng.range(0, 5000) as usize,
    };
    let tail = 7usize;
    let total = junk + e.bytes.len() + tail;
    let mut buf = vec![0u8; total];
    buf[junk..junk + e.bytes.len()].copy_from_slice(&e.bytes);
    ctx.eval();
    ctx.obs("huge.pattern_behind_4GiB");
    let detail = |got: String| J::obj().set("message", show_msg(&m)).set("junk_len", junk).set("buffer_len", total).set("got", got);
    match guarded(|| forward_to_next_storage_header(&buf).map(|(n, rest)| (n, super::ptr_off(&buf, rest), rest.len()))) {
        Err(p) => ctx.panic_violation("huge.no_panic", &p, || detail("panic in forward_to_next_storage_header".into())),
        Ok(Some((n, off, l))) if n as usize == junk && off == Some(junk) && l == total - junk => ctx.obs("huge.ok.search"),
        Ok(other) => ctx.violation("huge.search.wrong_offset", "behind_4GiB", || detail(format!("{:?}", other))),
    }
    if search_only {
        return;
    }
    ctx.eval();
    let alone = guarded(|| dlt_message(&e.bytes, None, true).map(|(_, pm)| pm));
    match guarded(|| dlt_message(&buf, None, true).map(|(rest, pm)| (super::ptr_off(&buf, rest), rest.len(), pm))) {
        Err(p) => ctx.panic_violation("huge.no_panic", &p, || detail("panic in dlt_message".into())),
        Ok(Ok((off, rl, ParsedMessage::Item(x)))) => {
            if off != Some(junk + e.bytes.len()) || rl != tail {
                ctx.violation("huge.remainder_starts_at_declared_end", "behind_4GiB", || detail(format!("remainder offset {:?} len {} (expected offset {} len {})", off, rl, junk + e.bytes.len(), tail)));
            } else if let Ok(Ok(ParsedMessage::Item(y))) = &alone {
                match diff_msg(&x, y, false) {
                    Some(d) => ctx.violation("huge.same_message_as_small_buffer", &d, || detail(show_msg(&x))),
                    None => ctx.obs("huge.ok.message_behind_4GiB"),
                }
            }
        }
        Ok(other) => {
            if matches!(alone, Ok(Ok(ParsedMessage::Item(_)))) {
                ctx.violation("huge.same_message_as_small_buffer", "not_a_message", || {
                    detail(match other {
                        Ok((_, _, pm)) => format!("{:?}", pm),
                        Err(e) => format!("Err({:?})", e),
                    })
                })
            }
        }
    }
    ctx.eval();
    match guarded(|| dlt_consume_msg(&buf).map(|(rest, n)| (super::ptr_off(&buf, rest), n))) {
        Err(p) => ctx.panic_violation("huge.no_panic", &p, || detail("panic in dlt_consume_msg".into())),
        Ok(Ok((off, Some(_)))) if off == Some(junk + e.bytes.len()) => ctx.obs("huge.ok.consume_behind_4GiB"),
        // the skipper expects the pattern at the very start and refuses junk in front of it: not a reported skip
        Ok(Err(_)) | Ok(Ok((_, None))) => ctx.obs("huge.consume_refuses_junk_in_front"),
        Ok(other) => ctx.violation("huge.consume.remainder_starts_at_declared_end", "behind_4GiB", || detail(format!("{:?}", other.map_err(|e| format!("{:?}", e))))),
    }
}

/// serves `unit` `count` times without holding the stream; reads are cut at unit boundaries now and then
pub struct CyclicSource {
    pub unit: Vec<u8>,
    pub count: u64,
    pub pos: u64,
    pub eof_reads: u64,
}

impl CyclicSource {
    fn serve(&mut self, buf: &mut [u8]) -> usize {
        let total = self.unit.len() as u64 * self.count;
        if buf.is_empty() {
            return 0;
        }
        if self.pos >= total {
            self.eof_reads += 1;
            if self.eof_reads > crate::iosched::EOF_IGNORED_BOUND {
                panic!("{}: the source answered end-of-stream {} times and is still being read", crate::iosched::EOF_IGNORED_MARK, self.eof_reads);
            }
            return 0;
        }
        let at = (self.pos % self.unit.len() as u64) as usize;
        let n = buf.len().min(self.unit.len() - at).min((total - self.pos) as usize);
        buf[..n].copy_from_slice(&self.unit[at..at + n]);
        self.pos += n as u64;
        n
    }
}

impl std::io::Read for CyclicSource {
    fn read(&mut self, buf: &mut [u8]) -> std::io::Result<usize> {
        Ok(self.serve(buf))
    }
}

impl futures::io::AsyncRead for CyclicSource {
    fn poll_read(mut self: std::pin::Pin<&mut Self>, _cx: &mut std::task::Context<'_>, buf: &mut [u8]) -> std::task::Poll<std::io::Result<usize>> {
        std::task::Poll::Ready(Ok(self.serve(buf)))
    }
}

/// more than 4 GiB of identical maximum-size messages through one reader object
pub fn over_4gib_through_one_reader(ctx: &mut Ctx, use_async: bool) {
    let storage = ctx.rng.chance(1, 2);
    // a non-verbose message of the largest declarable length
    let mut unit: Vec<u8> = vec![];
    if storage {
        unit.extend_from_slice(&[0x44, 0x4C, 0x54, 0x01, 1, 0, 0, 0, 2, 0, 0, 0, b'E', b'C', b'U', 0]);
    }
    unit.extend_from_slice(&[0x20, 0x5a, 0xff, 0xff]);
    unit.extend((0..65531u32).map(|i| (i % 251) as u8));
    let count: u64 = (1u64 << 32) / unit.len() as u64 + 3;
    let first = match dlt_message(&unit, None, storage) {
        Ok((_, ParsedMessage::Item(m))) => m,
        _ => {
            ctx.harness_error("the probe message of the >4 GiB reader history does not parse".into());
            return;
        }
    };
    ctx.eval();
    ctx.obs("huge.over_4GiB_through_one_reader");
    let src = CyclicSource { unit: unit.clone(), count, pos: 0, eof_reads: 0 };
    let detail = |got: String| J::obj().set("stream", format!("{} x one {}-byte message", count, unit.len())).set("with_storage_header", storage).set("reader", if use_async { "async" } else { "blocking" }).set("got", got);
    let res = guarded(|| {
        let mut delivered: u64 = 0;
        let mut wrong: Option<u64> = None;
        let terminal: String;
        if use_async {
            let mut reader = dlt_core::stream::DltStreamReader::new(src, storage);
            let mut st = crate::iosched::PollStats::default();
            loop {
                match crate::iosched::block_on_counted(dlt_core::stream::read_message(&mut reader, None), 1_000_000, &mut st) {
                    Ok(Ok(Some(ParsedMessage::Item(m)))) => {
                        if wrong.is_none() && (m.header.payload_length != first.header.payload_length || m.payload != first.payload) {
                            wrong = Some(delivered);
                        }
                        delivered += 1;
                    }
                    Ok(Ok(Some(_))) => delivered += 1,
                    Ok(Ok(None)) => {
                        terminal = "end".into();
                        break;
                    }
                    Ok(Err(e)) => {
                        terminal = format!("Err({:?})", e);
                        break;
                    }
                    Err(why) => {
                        terminal = format!("poll loop: {}", why);
                        break;
                    }
                }
                if delivered > count + 2 {
                    terminal = "more messages than the stream holds".into();
                    break;
                }
            }
        } else {
            let mut reader = dlt_core::read::DltMessageReader::new(src, storage);
            loop {
                match dlt_core::read::read_message(&mut reader, None) {
                    Ok(Some(ParsedMessage::Item(m))) => {
                        if wrong.is_none() && (m.header.payload_length != first.header.payload_length || m.payload != first.payload) {
                            wrong = Some(delivered);
                        }
                        delivered += 1;
                    }
                    Ok(Some(_)) => delivered += 1,
                    Ok(None) => {
                        terminal = "end".into();
                        break;
                    }
                    Err(e) => {
                        terminal = format!("Err({:?})", e);
                        break;
                    }
                }
                if delivered > count + 2 {
                    terminal = "more messages than the stream holds".into();
                    break;
                }
            }
        }
        (delivered, wrong, terminal)
    });
    match res {
        Err(p) => ctx.panic_violation(if use_async { "async_reader.no_panic" } else { "reader.no_panic" }, &p, || detail("panic".into())),
        Ok((delivered, wrong, terminal)) => {
            if let Some(k) = wrong {
                ctx.violation("huge.reader.same_messages", "content", || detail(format!("message #{} differs from the message in the stream", k)));
            } else if delivered != count || terminal != "end" {
                ctx.violation("huge.reader.every_message_delivered", "count_or_terminal", || detail(format!("{} messages delivered (stream holds {}), then {}", delivered, count, terminal)));
            } else {
                ctx.obs("huge.ok.over_4GiB_through_one_reader");
            }
        }
    }
}
