//! C04 — a successful parse consumes exactly the declared message and makes progress.
//!
//! The oracle is computed from the raw bytes only: p = first pattern offset (storage mode) or 0,
//! s = p + 16|0, LEN = be16(b[s+2..]), H = header sizes announced by b[s]. Whenever dlt_message
//! returns Ok((rest, Item|FilteredOut(n))) or dlt_consume_msg returns Ok((rest, Some(c))):
//! rest starts at s+LEN (by address), is a strict suffix, n == LEN-H, c == 16+LEN.
//! Chain monitor: repeated parsing of k concatenated messages visits exactly the independently
//! computed boundaries, with and without filters, and terminates within k+1 calls.

use crate::ctx::{guarded, Ctx, Monitor};
use crate::gen_msg::{gen_arg, gen_msg, payload_size, GenOpts, PKind};
use crate::inputs::gen_input;
use crate::json::{hex_trunc, J};
use crate::refcodec::{find_pattern, headers_len, payload_kind, ref_encode};
use dlt_core::dlt::*;
use dlt_core::filtering::{DltFilterConfig, ProcessedDltFilterConfig};
use dlt_core::parse::*;

pub struct M {
    filters: Vec<(&'static str, ProcessedDltFilterConfig)>,
}

impl Default for M {
    fn default() -> Self {
        let mk = |lvl: Option<u8>, apps: Option<Vec<&str>>, cnt: i64| -> ProcessedDltFilterConfig {
            DltFilterConfig {
                min_log_level: lvl,
                app_ids: apps.map(|v| v.into_iter().map(String::from).collect()),
                ecu_ids: None,
                context_ids: None,
                app_id_count: cnt,
                context_id_count: 0,
            }
            .into()
        };
        M {
            filters: vec![
                ("keep_all", mk(Some(6), None, 0)),
                ("drop_all", mk(Some(1), Some(vec!["\u{1}no"]), 9)),
                ("level_warn", mk(Some(3), None, 0)),
                ("apps_some", mk(None, Some(vec!["APP", "a", "ECU1", ""]), 2)),
            ],
        }
    }
}

struct Expect {
    end: usize,
    payload: usize,
    storage: bool,
}

/// boundary implied by the raw bytes (None when the headers are not all there)
fn expect_from_bytes(b: &[u8], wsh: bool) -> Option<Expect> {
    let s = if wsh { find_pattern(b)? + 16 } else { 0 };
    if b.len() < s + 4 {
        return None;
    }
    let len = u16::from_be_bytes([b[s + 2], b[s + 3]]) as usize;
    let h = headers_len(b[s]);
    Some(Expect {
        end: s + len,
        payload: len.saturating_sub(h),
        storage: wsh,
    })
}

fn check_call(ctx: &mut Ctx, b: &[u8], wsh: bool, filter: Option<(&'static str, &ProcessedDltFilterConfig)>, class: &'static str, tag: &str) -> Option<usize> {
    ctx.eval();
    let res = guarded(|| dlt_message(b, filter.map(|f| f.1), wsh).map(|(rest, pm)| (super::ptr_off(b, rest), rest.len(), pm)));
    let fname = filter.map(|f| f.0).unwrap_or("none");
    let detail = |got: String| {
        let e = expect_from_bytes(b, wsh);
        J::obj()
            .set("input_hex", hex_trunc(b, 240))
            .set("input_len", b.len())
            .set("with_storage_header", wsh)
            .set("filter", fname)
            .set("class", class)
            .set("variant", tag)
            .set("declared_end", e.as_ref().map(|e| e.end))
            .set("declared_payload", e.as_ref().map(|e| e.payload))
            .set("got", got)
    };
    match res {
        Err(p) => {
            // crashes are C03's subject; still a witness that no value was produced
            ctx.panic_violation("no_panic", &p, || detail("panic".into()));
            None
        }
        Ok(Err(_)) => {
            ctx.obs("call.err");
            ctx.shape(&(wsh, fname, class, tag.to_string(), "err"), false);
            None
        }
        Ok(Ok((off, rl, pm))) => {
            let (kind, outcome) = match &pm {
                ParsedMessage::Item(m) => (payload_kind(&m.payload), "item"),
                ParsedMessage::FilteredOut(_) => ("-", "filtered"),
                ParsedMessage::Invalid => ("-", "invalid"),
            };
            ctx.shape(&(wsh, fname, class, tag.to_string(), kind, outcome), true);
            ctx.obs_dyn(format!("call.ok.{}", outcome));
            if let ParsedMessage::Invalid = pm {
                // "Invalid" is not a success in the sense of the property; no boundary demanded
                return None;
            }
            let e = match expect_from_bytes(b, wsh) {
                Some(e) => e,
                None => {
                    ctx.violation("success_without_headers", tag, || detail(format!("{:?}", pm)));
                    return None;
                }
            };
            let off = match off {
                Some(o) => o,
                None => {
                    ctx.violation("remainder_is_suffix", tag, || detail("remainder outside the input".into()));
                    return None;
                }
            };
            if off + rl != b.len() {
                ctx.violation("remainder_is_suffix", tag, || detail(format!("remainder offset {} len {}", off, rl)));
            } else if off != e.end {
                let sign = if off > e.end { "beyond" } else { "short" };
                ctx.violation("remainder_starts_at_declared_end", &format!("{}:{}:{}", outcome, kind, sign), || {
                    detail(format!("remainder starts at {} ({} of the declared end {})", off, sign, e.end))
                });
            } else if off == 0 {
                ctx.violation("strict_suffix", tag, || detail("no progress".into()));
            } else {
                ctx.obs("boundary.ok");
                if tag != "exact" {
                    ctx.obs("boundary.ok_on_mismatching_payload");
                }
            }
            if let ParsedMessage::FilteredOut(n) = pm {
                if n != e.payload {
                    ctx.violation("filtered_out_count_is_payload_length", fname, || detail(format!("FilteredOut({})", n)));
                } else {
                    ctx.obs("filtered.count_ok");
                }
            }
            let _ = e.storage;
            Some(off)
        }
    }
}

fn check_consume(ctx: &mut Ctx, b: &[u8], class: &'static str) {
    ctx.eval();
    let res = guarded(|| dlt_consume_msg(b).map(|(rest, c)| (super::ptr_off(b, rest), rest.len(), c)));
    let detail = |got: String| J::obj().set("input_hex", hex_trunc(b, 240)).set("input_len", b.len()).set("class", class).set("got", got);
    match res {
        Err(p) => ctx.panic_violation("consume.no_panic", &p, || detail("panic".into())),
        Ok(Ok((off, rl, Some(c)))) => {
            // pre: the buffer starts with the storage header
            if b.len() < 20 || b[..4] != [0x44, 0x4C, 0x54, 0x01] {
                ctx.violation("consume.success_without_storage_header", class, || detail(format!("consumed {}", c)));
                return;
            }
            let len = u16::from_be_bytes([b[18], b[19]]) as usize;
            ctx.shape(&("consume", class, len.min(64)), true);
            if off != Some(16 + len) || off.map(|o| o + rl) != Some(b.len()) {
                ctx.violation("consume.remainder_starts_at_declared_end", class, || detail(format!("remainder offset {:?} len {}; declared end {}", off, rl, 16 + len)));
            } else if c != 16 + len as u64 {
                ctx.violation("consume.count_is_distance", class, || detail(format!("consumed {} != {}", c, 16 + len)));
            } else {
                ctx.obs("consume.ok");
            }
        }
        Ok(Ok((_, _, None))) => {
            if !b.is_empty() {
                ctx.violation("consume.none_only_on_empty_input", class, || detail("None".into()));
            } else {
                ctx.obs("consume.none_on_empty");
            }
        }
        Ok(Err(_)) => ctx.obs("consume.err"),
    }
}

impl M {
    /// One buffer, refilled in place again and again (the way a caller reads fixed-size chunks of a file
    /// into the same memory): junk + a cut message (error), then two messages whose second one starts
    /// exactly where the first fill had its pattern, then junk + message, ... . Address and often also
    /// length of the slice are the same from call to call; every call is judged by the bytes it is given.
    fn reused_buffer_history(&mut self, ctx: &mut Ctx) {
        let mut o = GenOpts::small();
        o.force_storage = Some(true);
        let p = ref_encode(&gen_msg(&mut ctx.rng, &o)).bytes;
        let q = ref_encode(&gen_msg(&mut ctx.rng, &o)).bytes;
        let k = p.len();
        let junk = crate::mutate::gen_junk(&mut ctx.rng, k);
        let c = 17 + ctx.rng.usize_below(q.len() - 16);
        let tail_n = ctx.rng.range(0, 30) as usize;
        let tail = ctx.rng.bytes(tail_n);
        let mut qbad = q.clone();
        if qbad.len() > 22 {
            let n = qbad.len();
            qbad[18] = 0;
            qbad[19] = 3; // declared length below the header size: a hard error
            let _ = n;
        }
        let mut fills: Vec<Vec<u8>> = vec![
            [&junk[..], &q[..c.min(q.len() - 1)]].concat(),
            [&p[..], &q[..]].concat(),
            [&junk[..], &q[..]].concat(),
            [&p[..], &q[..c.min(q.len() - 1)]].concat(),
            [&junk[..], &qbad[..]].concat(),
            [&p[..], &q[..], &tail[..]].concat(),
            [&junk[..], &q[..], &tail[..]].concat(),
        ];
        // start with an erroring fill, continue in random order, repeat a few
        let first = fills.remove(if ctx.rng.chance(1, 2) { 0 } else { 4 });
        ctx.rng.shuffle(&mut fills);
        let mut seq = vec![first];
        seq.extend(fills);
        let cap = seq.iter().map(|f| f.len()).max().unwrap_or(0) + 8;
        let mut buf: Vec<u8> = Vec::with_capacity(cap);
        let fi = ctx.rng.usize_below(self.filters.len());
        for (n, f) in seq.iter().enumerate() {
            if find_pattern(f).map_or(false, |at| at != 0 && at != k) {
                continue; // junk formed an accidental pattern: skip this fill
            }
            buf.clear();
            buf.extend_from_slice(f);
            ctx.obs("history.reused_buffer_fill");
            check_call(ctx, &buf, true, None, "reused_buffer", "exact");
            if n % 2 == 1 {
                let flt = (self.filters[fi].0, &self.filters[fi].1);
                check_call(ctx, &buf, true, Some(flt), "reused_buffer", "exact");
            }
            check_consume(ctx, &buf, "reused_buffer");
        }
    }
}

impl Monitor for M {
    fn case(&mut self, ctx: &mut Ctx) {
        let light = ctx.light();
        if super::huge::wanted(ctx) {
            // sizes and offsets that do not fit in 32 bits (one probe per run, see mon/huge.rs)
            super::huge::message_at_start_of_4gib_slice(ctx);
            super::huge::stored_message_behind_4gib(ctx, false);
        }
        if ctx.index % 16 == 5 {
            self.reused_buffer_history(ctx);
        }
        match ctx.index % 4 {
            0 => {
                // payload/declaration mismatches with bytes available behind the message
                ctx.obs("cases.mismatch");
                let mut o = GenOpts::small();
                if ctx.rng.chance(1, 2) {
                    o.force_kind = Some(PKind::Verbose);
                }
                let mut m = gen_msg(&mut ctx.rng, &o);
                if let PayloadContent::Verbose(a) = &m.payload {
                    if a.is_empty() {
                        let arg = gen_arg(&mut ctx.rng, 40);
                        m.payload = PayloadContent::Verbose(vec![arg]);
                        m.header.payload_length = payload_size(&m.payload) as u16;
                        if let Some(x) = m.extended_header.as_mut() {
                            x.argument_count = 1;
                        }
                    }
                }
                let e = ref_encode(&m);
                let wsh = m.storage_header.is_some();
                let lf = e.find("std.len").unwrap().start;
                let orig = u16::from_be_bytes([e.bytes[lf], e.bytes[lf + 1]]) as i64;
                let h = headers_len(e.bytes[e.std_start]) as i64;
                // behind the message: another message / a valid argument / random / zeros
                let tail: Vec<u8> = match ctx.rng.below(4) {
                    0 => ref_encode(&gen_msg(&mut ctx.rng, &GenOpts::small())).bytes,
                    1 => {
                        let a = gen_arg(&mut ctx.rng, 30);
                        let mut v = vec![];
                        crate::refcodec::encode_argument(&mut v, &a, e.bytes[e.std_start] & 2 != 0);
                        v.extend_from_slice(&[0; 8]);
                        v
                    }
                    2 => {
                        let n = ctx.rng.range(8, 60) as usize;
                        ctx.rng.bytes(n)
                    }
                    _ => vec![0u8; ctx.rng.range(8, 60) as usize],
                };
                let deltas: Vec<(i64, &'static str)> = vec![
                    (0, "exact"),
                    (ctx.rng.range(1, 12) as i64, "slack"),
                    (-(ctx.rng.range(1, 6) as i64), "spill"),
                    (-(orig - h).min(ctx.rng.range(1, 40) as i64), "spill"),
                    (tail.len() as i64, "slack_to_end"),
                ];
                for (d, tag) in deltas {
                    let new_len = orig + d;
                    if new_len < h || new_len > 65535 {
                        continue;
                    }
                    let mut b = e.bytes.clone();
                    b[lf] = (new_len >> 8) as u8;
                    b[lf + 1] = new_len as u8;
                    b.extend_from_slice(&tail);
                    check_call(ctx, &b, wsh, None, "mismatch", tag);
                    let fi = ctx.rng.usize_below(self.filters.len());
                    let f = (self.filters[fi].0, &self.filters[fi].1);
                    check_call(ctx, &b, wsh, Some(f), "mismatch", tag);
                    if wsh {
                        check_consume(ctx, &b, "mismatch");
                    }
                }
                ctx.sample(|| J::obj().set("kind", "mismatch").set("message_hex", hex_trunc(&e.bytes, 80)).set("tail_hex", hex_trunc(&tail, 40)));
            }
            1 => {
                // chains
                ctx.obs("cases.chain");
                // mostly short chains; 1 in 40 is a long buffer (> 64 KiB: many small messages or a few
                // of the largest ones), 1 in 1600 exceeds 1 MiB
                let long = !light && (ctx.index / 4) % 40 == 9;
                let huge = long && (ctx.index / 4) % 1600 == 9;
                let big_msgs = long && ctx.rng.chance(1, 2);
                let k = if huge {
                    if big_msgs { ctx.rng.range(17, 24) } else { ctx.rng.range(9000, 12000) }
                } else if long {
                    if big_msgs { ctx.rng.range(2, 5) } else { ctx.rng.range(700, 2500) }
                } else {
                    ctx.rng.range(1, if light { 4 } else { 50 })
                } as usize;
                if long {
                    ctx.obs("chain.long_buffer");
                }
                if huge {
                    ctx.obs("chain.buffer_over_1MiB");
                }
                let wsh = ctx.rng.chance(1, 2);
                let mut o = GenOpts::small();
                o.force_storage = Some(wsh);
                let mut buf = vec![];
                let mut bounds = vec![0usize];
                for _ in 0..k {
                    if big_msgs {
                        o = GenOpts::near_max(&mut ctx.rng);
                        o.force_storage = Some(wsh);
                        if ctx.rng.chance(1, 3) {
                            o.force_exact = false;
                            o.typical_total = 60000;
                        }
                    }
                    if wsh && ctx.rng.chance(1, 5) {
                        let n = ctx.rng.range(1, 20) as usize;
                        let j = crate::mutate::gen_junk(&mut ctx.rng, n);
                        buf.extend_from_slice(&j);
                    }
                    let m = gen_msg(&mut ctx.rng, &o);
                    buf.extend_from_slice(&ref_encode(&m).bytes);
                    bounds.push(buf.len());
                }
                if wsh {
                    // accidental earlier pattern occurrences would move the boundaries: recompute independently
                    let mut pos = 0usize;
                    let mut b2 = vec![0usize];
                    while let Some(e) = expect_from_bytes(&buf[pos..], true) {
                        if pos + e.end > buf.len() {
                            break;
                        }
                        pos += e.end;
                        b2.push(pos);
                    }
                    bounds = b2;
                }
                let filters: Vec<Option<usize>> = vec![None, Some(ctx.rng.usize_below(self.filters.len())), Some(1)];
                for f in filters {
                    let fopt = f.map(|i| (self.filters[i].0, &self.filters[i].1));
                    let mut pos = 0usize;
                    let mut visited = vec![0usize];
                    let mut calls = 0;
                    while calls <= bounds.len() + 1 {
                        calls += 1;
                        match check_call(ctx, &buf[pos..], wsh, fopt, "chain", "exact") {
                            Some(adv) if adv > 0 => {
                                pos += adv;
                                visited.push(pos);
                            }
                            _ => break,
                        }
                        if pos >= buf.len() {
                            break;
                        }
                    }
                    if visited != bounds {
                        ctx.violation("chain.boundaries", fopt.map(|x| x.0).unwrap_or("none"), || {
                            J::obj()
                                .set("stream_hex", hex_trunc(&buf, 300))
                                .set("with_storage_header", wsh)
                                .set("expected_boundaries", bounds.iter().map(|&x| x as u64).collect::<Vec<_>>())
                                .set("visited", visited.iter().map(|&x| x as u64).collect::<Vec<_>>())
                        });
                    } else {
                        ctx.obs("chain.ok");
                    }
                }
            }
            _ => {
                // any input on which the call may or may not succeed
                let inp = gen_input(&mut ctx.rng, None, light, None);
                ctx.obs_dyn(format!("cases.input.{}", inp.class));
                check_call(ctx, &inp.bytes, inp.wsh, None, inp.class, "exact");
                let fi = ctx.rng.usize_below(self.filters.len());
                let f = (self.filters[fi].0, &self.filters[fi].1);
                check_call(ctx, &inp.bytes, inp.wsh, Some(f), inp.class, "exact");
                if ctx.rng.chance(1, 4) {
                    check_call(ctx, &inp.bytes, !inp.wsh, None, inp.class, "exact");
                }
                check_consume(ctx, &inp.bytes, inp.class);
                if ctx.rng.chance(1, 20) {
                    check_consume(ctx, &[], "empty");
                }
                // a random filter configuration (empty / duplicate / over-long ids, extreme counts)
                if ctx.rng.chance(1, 3) {
                    let (pf, _cfg_text) = crate::filtergen::gen_processed(&mut ctx.rng);
                    check_call(ctx, &inp.bytes, inp.wsh, Some(("random", &pf)), inp.class, "exact");
                }
                // one of the 16 largest declarable lengths, stored: 16 + LEN exceeds 65535
                if !light && ctx.rng.chance(1, 150) {
                    let mut o = GenOpts::near_max(&mut ctx.rng);
                    o.force_storage = Some(true);
                    let mut b = ref_encode(&gen_msg(&mut ctx.rng, &o)).bytes;
                    let n = ctx.rng.range(0, 40) as usize;
                    b.extend(ctx.rng.bytes(n));
                    ctx.obs("cases.near_max_stored");
                    check_call(ctx, &b, true, None, "near_max", "exact");
                    let fi = ctx.rng.usize_below(self.filters.len());
                    let f = (self.filters[fi].0, &self.filters[fi].1);
                    check_call(ctx, &b, true, Some(f), "near_max", "exact");
                    check_consume(ctx, &b, "near_max");
                }
            }
        }
    }

    fn describe(&self, ctx: &Ctx) -> J {
        super::describe(
            "1/4 payload/declaration mismatches: a valid message whose LEN is exact / larger by 1-12 (slack) / smaller (arguments spill over the declared end) / extended to the end of the buffer, always with parseable bytes behind it (next message, a valid argument, random, zeros), parsed without filter, with one of 4 filters, and through dlt_consume_msg; 1/4 chains of 1-50 concatenated messages (1 in 40 chains is a buffer > 64 KiB of 700-2500 small or 2-5 maximum-size messages, 1 in 1600 a buffer > 1 MiB; storage mode with occasional junk between) walked by repeated parsing under no filter / a random filter / a drop-all filter and compared with independently computed boundaries; 1/2 inputs of all C02 classes (canonical, dialect, mutants, truncations, long-field attacks, arbitrary, header-shaped) x filter (4 fixed ones, and a random configuration for every third input) x storage mode, plus stored messages with one of the 16 largest declarable lengths through dlt_message and dlt_consume_msg; every 16th case is a history on ONE buffer refilled in place (junk + cut message, message pairs whose second message starts where the previous fill had its pattern, damaged messages, tails). distinct = (storage mode, filter, class, mismatch sign, payload kind, result class); non-trivial = the call returned Ok",
            &["the oracle uses only the pattern position, the constant 16 and the LEN/HTYP bytes of the input; whether a mismatching message is accepted or rejected is not its business", "ParsedMessage::Invalid is not counted as a successful parse"],
            &[("boundary.ok", super::scaled(ctx, 100000)), ("boundary.ok_on_mismatching_payload", super::scaled(ctx, 5000)), ("filtered.count_ok", super::scaled(ctx, 10000)), ("consume.ok", super::scaled(ctx, 10000)), ("chain.ok", super::scaled(ctx, 1000))],
        )
    }
}
